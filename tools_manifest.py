#!/venv/bin/python
"""Regenerates MANIFEST.json from the per-property registry below."""
import json
import os

ROOT = os.path.dirname(os.path.abspath(__file__))
props = [json.loads(l) for l in open(os.path.join(ROOT, "properties.jsonl"))]

# property id -> (technique, level text, level note, design ref)
REG = {}


def reg(pid, technique, text, note, ref):
    REG[pid] = (technique, text, note, ref)


reg("C01", "bounded-exhaustive exploration of the real GLRParser over all small "
    "grammars x lexeme maps x table kinds x inputs, against a character-level "
    "chart/SPPF reference model",
    "Every grammar with <= 3 (quick) / <= 4 (thorough) productions over two "
    "nonterminals (quick also: the complete space of three nonterminals over "
    "one terminal and seed-rotated windows of the rhs<=3 and three-nonterminal "
    "spaces), six lexeme maps, LALR and SLR tables and every input up to "
    "length 4/5 is parsed by the real GLRParser; acceptance and every returned "
    "tree are compared with an independent chart reference. Exhaustive within "
    "the stated bounds, silent about larger grammars/inputs.",
    "trusted: the reference chart (pgmc/ref/cfg.py), CPython, re; bounds as "
    "listed in the evidence file", "DESIGN.md section 8 C01")

reg("C05", "explicit-state exploration of the product of parglare's LR automaton "
    "with a canonical LR(1) reference automaton, every reachable pair "
    "replayed through the real GLR driver",
    "For every grammar with <= 4 productions (quick; thorough adds k=5, "
    "rhs<=3, three nonterminals) and both table kinds and both start "
    "productions, all reachable (parglare state, canonical LR(1) state) pairs "
    "are enumerated and the simulation relation (lower bound; LALR(1) upper "
    "bound; conflicts only where LALR(1) has them) is checked in each; "
    "termination is decided by a reference-derived state budget. Covers "
    "viable prefixes of every length for these grammars.",
    "trusted: canonical LR(1) reference (pgmc/ref/lr1.py), Earley oracle for "
    "the driver binding; grammar-size bound remains",
    "DESIGN.md section 8 C05")

reg("C04", "bounded-exhaustive exploration of the real LR Parser over all small "
    "grammars x 8 table configurations x (all short inputs + inputs generated "
    "from every state of the parser's own table), chart reference",
    "Soundness (accept => sentence, tree is a derivation) for every "
    "constructible Parser; exactness (unambiguous, accepts every sentence, "
    "GLR returns the same single tree) whenever every table cell holds one "
    "action with all strategies off. Exhaustive within the bounds.",
    "trusted: chart/SPPF reference, Earley for generated inputs; LR "
    "non-termination with resolved conflicts is counted, not judged here",
    "DESIGN.md section 8 C04")
reg("C06", "bounded-exhaustive exploration: every operator table up to 4 (6 "
    "restricted) operators x every expression up to 3-4 operators, LR and GLR, "
    "against a precedence-climbing reference; plus every annotation of every "
    "reference-LALR(1) small grammar",
    "Every weak ordering x associativity x alternative order x base position "
    "x meta-data style is built and every well-formed expression is parsed by "
    "Parser (strategies off) and GLRParser and compared with precedence "
    "climbing; annotations on LALR(1) grammars must change nothing.",
    "trusted: precedence climbing reference, canonical LR(1) for the LALR(1) "
    "test", "DESIGN.md section 8 C06")

BE = ("bounded-exhaustive exploration of the real implementation (stateless, "
      "every case of a finite space enumerated) against an executable "
      "reference model: ")
reg("C02", BE + "forest tree set vs reference SPPF tree set for every acyclic "
    "small grammar x lexeme map x table kind x sentence",
    "Every derivation the chart reference finds must be in the forest; "
    "exhaustive for grammars <= 3 (quick) / <= 4 productions, inputs <= 4/5. "
    "The known revisit/identity defects are matched against committed witness "
    "maps (case + digest); anything else is a violation.",
    "trusted: chart/SPPF reference; witness maps generated from a complete "
    "thorough run", "DESIGN.md section 8 C02")
reg("C03", BE + "own forest walker as ground truth vs Forest's counting, "
    "indexing, iteration, lazy/non-lazy access, get_first_tree, out-of-range "
    "indexes, LoopError; big-integer counts against a Catalan DP",
    "Every index of every forest of the domain (all when len <= 300, else "
    "first/last 64) is decoded through every access path and compared.",
    "trusted: own walker over Parent/NodeNonTerm objects; chart reference for "
    "the LoopError clause", "DESIGN.md section 8 C03")
reg("C07", BE + "token choice in every LR state (every subset of every small "
    "terminal set made an expected set) vs the documented rule list on the "
    "full candidate set; GLR forks without lexical disambiguation",
    "All sets of <= 2 terminal profiles completely, windows of 3 (quick) / all "
    "of 3 and a window of 4 (thorough); marks and ignore_case families.",
    "trusted: pgmc/ref/scanner.py (docs/disambiguation.md)",
    "DESIGN.md section 8 C07")
reg("C08", BE + "structural position invariants, losslessness and positions "
    "seen by actions on every node of every tree, ws and LAYOUT layout, LR "
    "and GLR", "Exhaustive over small grammars x sentences with layout in "
    "every gap. Known GLR empty-after-layout defect matched by witness map.",
    "trusted: invariants are definitional; bounded", "DESIGN.md section 8 C08")
reg("C09", BE + "on-the-fly actions vs call_actions(tree) vs GLR call_actions "
    "vs a reference evaluator over the derivation tree, for every placement "
    "of named matches and action style",
    "Every decoration of every small grammar, every accepted input <= 4.",
    "trusted: reference evaluator in props/c09.py", "DESIGN.md section 8 C09")
reg("C10", BE + "every non-sentence (plus access string of every table state "
    "+ every terminal) vs an Earley viable-prefix oracle: exception type, "
    "position, line/column, end-of-file wording, str(), symbols_expected",
    "GLR, deterministic LR and LR with resolved conflicts, LALR and SLR, "
    "lexical overlap maps, list inputs.",
    "trusted: Earley over the token lattice; STOP excluded from "
    "symbols_expected comparison", "DESIGN.md section 8 C10")
reg("C13", BE + "sugared grammar vs its documented BNF expansion (shared "
    "helpers) through Parser/GLRParser in four configurations, and vs the "
    "chart; greedy and helper-name-collision families",
    "All 1- and 2-item rule shapes (quick: window of 2-item), 3-item over a "
    "reduced item set (thorough), every input up to the bound.",
    "trusted: pgmc/ref/sugar.py mirrors the docs' equivalence notes",
    "DESIGN.md section 8 C13")
reg("C14", BE + "metamorphic: every assignment of layout fillers to every gap "
    "of every short token string vs the single-space rendering; ws vs "
    "equivalent LAYOUT rule incl. positions and layout_content",
    "LR and GLR, LALR and SLR, ws characters and (nested) comments.",
    "trusted: metamorphic relation; single-character terminals",
    "DESIGN.md section 8 C14")
reg("C17", BE + "consume_input=False: GLR tree set vs union of reference "
    "derivations of all sentence prefixes; LR result is a derivation of a "
    "sentence prefix; cause oracle (twin instance) for the STOP-dropped finding",
    "Acyclic small grammars x lexical_disambiguation on/off x every input.",
    "trusted: chart reference with prefix roots; intervention-based "
    "attribution for STOP-DROPPED", "DESIGN.md section 8 C17")

reg("C11", BE + "error recovery on every string (all corruptions of all short "
    "sentences) for five strategies, LR and GLR: termination by step budget, "
    "span discipline, tree validity, character coverage, sentences unaffected",
    "Exhaustive over windows of the k<=3 space (quick) / the whole space "
    "(thorough), lexical-overlap maps included.",
    "trusted: structural oracles; chart for sentences", "DESIGN.md section 8 C11")
reg("C12", "explicit-state breadth-first exploration of file-system histories "
    "on the real code (builds with 8 option sets incl. pglr compile, edits and "
    "touches of root / imported / second-level imported files, cache deletion, "
    "interrupted builds) with a logical mtime clock, plus exhaustive "
    "enumeration of every crash point of the cache write through a file-system "
    "interposer, plus the save/load round trip on every small grammar",
    "After every build in every reached state the parser is compared with a "
    "no-cache oracle on every probe input; depth 3 (quick) / 4 (thorough); "
    "every operation boundary and byte offset of the write in two visibility "
    "variants.",
    "process crashes only; equal mtimes excluded; cause oracle for the "
    "options-not-in-cache finding", "DESIGN.md section 8 C12")
reg("C15", "exhaustive exploration of API operation histories on shared "
    "Grammar/Parser objects (19 events, no state pruning) executed by the real "
    "code, with a fresh-object oracle after every history",
    "All histories up to depth 3 and a fully enumerated residue class of depth "
    "4 (quick); depth 4 + class of depth 5 (thorough), three grammars.",
    "oracle: fresh Grammar + fresh parser; interrupted construction simulated "
    "by the harness", "DESIGN.md section 8 C15")
reg("C16", "exhaustive enumeration of the iteration orders Python's set can "
    "give the grammar's terminals (controlled symbol hashes, one fresh process "
    "per STOP/EMPTY placement, colliding hashes included) plus a "
    "PYTHONHASHSEED sweep in fresh interpreters; digest equality of tables, "
    "structural conflict lists and ordered forests",
    "Every grammar with <= 3 productions under every relative order of its "
    "lookahead-set elements; example grammars and parglare's own grammar under "
    "the seed sweep.",
    "assumes sets of grammar symbols are the only hash-ordered containers on "
    "these paths (confirmed by the seed sweep)", "DESIGN.md section 8 C16")
reg("C18", BE + "call discipline and effect of the dynamic filter for every "
    "subset of marked productions/terminals, three filter families, LR and GLR",
    "All mark subsets for 2 operators, window/all for 3; every expression up "
    "to the operator bound; every operator table for the precedence filter.",
    "trusted: no-filter forest, precedence climbing", "DESIGN.md section 8 C18")
reg("C19", BE + "every short string-terminal text inline vs declared, and "
    "every short text x 4 KEYWORD regexes, against a literal/word-boundary "
    "reference scanner",
    "All texts of length <= 2 and a window of length 3 (quick) / all of length "
    "3 (thorough) over 15 characters; ignore_case on/off.",
    "texts needing escape sequences: inline/declared consistency only (docs "
    "do not define escapes)", "DESIGN.md section 8 C19")
reg("C20", BE + "every split of a base grammar over 2-3 files (chain, fan-out, "
    "diamond, mutual import; aliases; shared terminal file; import order; "
    "other-path references; override) on real files vs the flattened grammar "
    "and the chart",
    "A fully enumerated residue class of the three-nonterminal space (1/400 "
    "quick, 1/25 thorough) x all variants x all inputs <= 4.",
    "trusted: flattened grammar through parglare (validated by C01/C04) and "
    "the chart", "DESIGN.md section 8 C20")

# families added after seeded faults were missed (DESIGN.md section 0)
ADD = {
    "C07": " Also a pool with string terminals of 9-11 characters.",
    "C01": " Also two medium grammars (more than ten LR states) x every input of length 11-12 (thorough 11-14).",
    "C02": " Also the space r4 (one production with four right-hand-side "
           "symbols + up to two short ones over one terminal).",
    "C03": " Also: reading (counting, indexing, iterating, get_first_tree) "
           "must not change the forest; forests of a parser with an "
           "accept-all dynamic filter. Long-input family as in C01 (derivation counts); seven-operator big-count grammar.",
    "C05": " Also a template family of 912 grammars around the "
           "LR(1)-but-not-LALR(1) core (same-kernel states that must stay "
           "apart, nullable tails), and tables built on one shared Grammar "
           "object in both orders. Also a family of 2970 grammars with twelve alternatives (two-digit production ids) and SLR/LALR tables built on one shared Grammar object in both orders.",
    "C06": " Also tables=SLR for up to 3 operators, zero-based priorities, "
           "rule-level and production-level meta-data mixed. Priorities numbered from 300.",
    "C09": " Also rules defined in two parts, @action decorators on rules "
           "with groups/repetitions, and the tree route on a parser with an "
           "accept-all dynamic filter. A second, partial action table on a Grammar object used before.",
    "C10": " Also a LAYOUT-rule family (block comments parsed token by "
           "token) against the language with the layout written out.",
    "C11": " Also rows where the layout is given by a LAYOUT rule. Two fixed medium grammars with several GLR heads at the first error.",
    "C12": " Six grammar sets (import chain, lexical overlap, .pge hints, "
           "LAYOUT rule). Truncation sweep over every byte length of a complete cache; non-ASCII terminal texts.",
    "C13": " Also all pairs of repetitions over the same base, and group "
           "shapes under a rule decorator. Names containing the helper suffixes (_0, _1, _opt).",
    "C14": " Also ws sets of regex-special characters, construction-outcome "
           "comparison, and the comment LAYOUT with terminal priorities. Fillers of 33-300 layout characters.",
    "C15": " Now 25 events and four grammars (lexical overlap with a token "
           "spanning a raising position; block comments that make the LAYOUT "
           "sub-parser abort a parse); probes run in rotated order.",
    "C16": " Also modular grammars with same-named terminals in two files, "
           "and calculated vs cache-loaded forest order in every process. Terminal names of 50 characters differing in the last one.",
    "C17": " Also a lexeme map with different terminal priorities and rows "
           "with a pass-through custom_token_recognition.",
    "C18": " Also a LAYOUT-rule variant, {dynamic} on the rule level, marks "
           "on the atom production, an LR reject family. EMPTY productions marked dynamic.",
    "C19": " Upper-case letter in the text alphabet; two-string keyword family.",
    "C20": " Also dotted import paths, override x repetition, and a family of "
           "hand-flattened special cases (root-level KEYWORD / LAYOUT, "
           "same-named terminals in two modules, re_flags / ignore_case).",
}
for _pid, _txt in ADD.items():
    _t = REG[_pid]
    REG[_pid] = (_t[0], _t[1] + _txt, _t[2], _t[3])

NOT_YET = "check not built yet in this round (planned, see DESIGN.md section 8/12)"

checks = []
na = []
for p in props:
    pid = p["id"]
    if pid in REG:
        tech, text, note, ref = REG[pid]
        checks.append({
            "property_id": pid,
            "quick_cmd": f"./check {pid} --tier quick",
            "thorough_cmd": f"./check {pid} --tier thorough",
            "evidence_file": f"/verif/evidence/{pid}.json",
            "replay_cmd_template": f"./check {pid} --replay {{path}}",
            "engine": "pgmc",
            "level_claimed": {"category": "model_checking", "text": text,
                              "design_ref": ref},
            "level_note": note,
            "technique": tech,
        })
    else:
        na.append({"property_id": pid, "reason": NOT_YET})

manifest = {
    "version": 1,
    "setup_cmd": "./setup.sh",
    "hooks": {
        "guard": "PARGLARE_VERIF",
        "enable": "no source hooks: all monitors are installed from the harness "
                  "by wrapping attributes of the imported parglare modules "
                  "(parglare is an editable install of /repo)",
        "baseline_off_cmd": "cd /repo && /venv/bin/python -m pytest -ra -q -p "
                            "no:cacheprovider --timeout=900 "
                            "--continue-on-collection-errors --junitxml=<file>",
        "source_commits": [],
        "add_only": True,
    },
    "engines": [{
        "name": "pgmc", "path": "/verif/pgmc",
        "serves_properties": sorted(REG),
        "kind_free_text": "hand-written explicit-state / bounded-exhaustive "
                          "explorer over the real parglare code, with "
                          "reference models in Python",
    }],
    "checks": checks,
    "notes": "All checks: ./check <ID> --tier quick|thorough; known findings in "
             "known_findings.json + known/*.json; see DESIGN.md.",
    "not_applicable": na,
}
json.dump(manifest, open(os.path.join(ROOT, "MANIFEST.json"), "w"), indent=1)
print("checks:", [c["property_id"] for c in checks], "n/a:", len(na))
