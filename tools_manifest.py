#!/venv/bin/python
"""Regenerates MANIFEST.json from the per-property registry below."""
import json
import os

ROOT = os.path.dirname(os.path.abspath(__file__))
props = [json.loads(l) for l in open(os.path.join(ROOT, "properties.jsonl"))]

# property id -> (technique, level text, level note, design ref)
REG = {}


def reg(pid, technique, text, note, ref):
    REG[pid] = (technique, text, note, ref)


reg("C01", "bounded-exhaustive exploration of the real GLRParser over all small "
    "grammars x lexeme maps x table kinds x inputs, against a character-level "
    "chart/SPPF reference model",
    "Every grammar with <= 3 (quick) / <= 4 (thorough) productions over two "
    "nonterminals, five lexeme maps, LALR and SLR tables and every input up to "
    "length 4/5 is parsed by the real GLRParser; acceptance and every returned "
    "tree are compared with an independent chart reference. Exhaustive within "
    "the stated bounds, silent about larger grammars/inputs.",
    "trusted: the reference chart (pgmc/ref/cfg.py), CPython, re; bounds as "
    "listed in the evidence file", "DESIGN.md section 8 C01")

reg("C05", "explicit-state exploration of the product of parglare's LR automaton "
    "with a canonical LR(1) reference automaton, every reachable pair "
    "replayed through the real GLR driver",
    "For every grammar with <= 4 productions (quick; thorough adds k=5, "
    "rhs<=3, three nonterminals) and both table kinds and both start "
    "productions, all reachable (parglare state, canonical LR(1) state) pairs "
    "are enumerated and the simulation relation (lower bound; LALR(1) upper "
    "bound; conflicts only where LALR(1) has them) is checked in each; "
    "termination is decided by a reference-derived state budget. Covers "
    "viable prefixes of every length for these grammars.",
    "trusted: canonical LR(1) reference (pgmc/ref/lr1.py), Earley oracle for "
    "the driver binding; grammar-size bound remains",
    "DESIGN.md section 8 C05")

reg("C04", "bounded-exhaustive exploration of the real LR Parser over all small "
    "grammars x 8 table configurations x (all short inputs + inputs generated "
    "from every state of the parser's own table), chart reference",
    "Soundness (accept => sentence, tree is a derivation) for every "
    "constructible Parser; exactness (unambiguous, accepts every sentence, "
    "GLR returns the same single tree) whenever every table cell holds one "
    "action with all strategies off. Exhaustive within the bounds.",
    "trusted: chart/SPPF reference, Earley for generated inputs; LR "
    "non-termination with resolved conflicts is counted, not judged here",
    "DESIGN.md section 8 C04")
reg("C06", "bounded-exhaustive exploration: every operator table up to 4 (6 "
    "restricted) operators x every expression up to 3-4 operators, LR and GLR, "
    "against a precedence-climbing reference; plus every annotation of every "
    "reference-LALR(1) small grammar",
    "Every weak ordering x associativity x alternative order x base position "
    "x meta-data style is built and every well-formed expression is parsed by "
    "Parser (strategies off) and GLRParser and compared with precedence "
    "climbing; annotations on LALR(1) grammars must change nothing.",
    "trusted: precedence climbing reference, canonical LR(1) for the LALR(1) "
    "test", "DESIGN.md section 8 C06")

NOT_YET = "check not built yet in this round (planned, see DESIGN.md section 8/12)"

checks = []
na = []
for p in props:
    pid = p["id"]
    if pid in REG:
        tech, text, note, ref = REG[pid]
        checks.append({
            "property_id": pid,
            "quick_cmd": f"./check {pid} --tier quick",
            "thorough_cmd": f"./check {pid} --tier thorough",
            "evidence_file": f"/verif/evidence/{pid}.json",
            "replay_cmd_template": f"./check {pid} --replay {{path}}",
            "engine": "pgmc",
            "level_claimed": {"category": "model_checking", "text": text,
                              "design_ref": ref},
            "level_note": note,
            "technique": tech,
        })
    else:
        na.append({"property_id": pid, "reason": NOT_YET})

manifest = {
    "version": 1,
    "setup_cmd": "./setup.sh",
    "hooks": {
        "guard": "PARGLARE_VERIF",
        "enable": "no source hooks: all monitors are installed from the harness "
                  "by wrapping attributes of the imported parglare modules "
                  "(parglare is an editable install of /repo)",
        "baseline_off_cmd": "cd /repo && /venv/bin/python -m pytest -ra -q -p "
                            "no:cacheprovider --timeout=900 "
                            "--continue-on-collection-errors",
        "source_commits": [],
        "add_only": True,
    },
    "engines": [{
        "name": "pgmc", "path": "/verif/pgmc",
        "serves_properties": sorted(REG),
        "kind_free_text": "hand-written explicit-state / bounded-exhaustive "
                          "explorer over the real parglare code, with "
                          "reference models in Python",
    }],
    "checks": checks,
    "notes": "All checks: ./check <ID> --tier quick|thorough; known findings in "
             "known_findings.json + known/*.json; see DESIGN.md.",
    "not_applicable": na,
}
json.dump(manifest, open(os.path.join(ROOT, "MANIFEST.json"), "w"), indent=1)
print("checks:", [c["property_id"] for c in checks], "n/a:", len(na))
