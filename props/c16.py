"""C16 - tables and forests are deterministic across processes and hash
seeds (shape D: every iteration order Python's set can give the grammar's
terminals, by controlling symbol hashes; plus a PYTHONHASHSEED sweep in fresh
processes)."""
import collections
import json
import os
import subprocess
import sys

from pgmc import spaces
from pgmc.findings import ROOT, Judge, Known

PROP = "C16"
KNOWN = Known(PROP)
FLOOR = {"quick": 500, "thorough": 2000}
UNIT_TIMEOUT = 1800
SPACES = {
    "k2": dict(nts=("S", "A"), ts=("a", "b"), r=2, k=2),
    "k3": dict(nts=("S", "A"), ts=("a", "b"), r=2, k=3),
    "k4only": dict(nts=("S", "A"), ts=("a", "b"), r=2, k=4, kmin=4),
}
SLOTS = ["2,5", "5,2", "0,7", "7,0"]


def plan(tier, seed):
    if tier == "quick":
        return dict(space="k3", chunk=150, seeds=[0, 1, 2, 3, 4, 5],
                    slots=SLOTS[:2], assign_window=f"{seed}/3")
    return dict(space="k3", chunk=100,
                seeds=list(range(64)) + [2 ** 31, 2 ** 32 - 1],
                slots=SLOTS, assign_window=None, extra_space="k4only",
                extra_win=(0, 10))


def units(tier, seed):
    pl = plan(tier, seed)
    out = []
    n = len(spaces.grammars(**SPACES[pl["space"]]))
    for i in range(0, n, pl["chunk"]):
        out.append(dict(space=pl["space"], lo=i, hi=min(n, i + pl["chunk"]),
                        seeds=pl["seeds"], slots=pl["slots"],
                        aw=pl["assign_window"]))
    if pl.get("extra_space"):
        n = len(spaces.grammars(**SPACES[pl["extra_space"]]))
        for i in range(0, n, 1000):
            out.append(dict(space=pl["extra_space"], lo=i, hi=min(n, i + 100),
                            seeds=pl["seeds"][:8], slots=pl["slots"][:2],
                            aw="0/4"))
    out.append(dict(space="modular",
                    seeds=pl["seeds"][:6 if tier == "quick" else 16]))
    import glob
    files = sorted(glob.glob("/repo/examples/**/*.pg", recursive=True))
    for f in files + ["<grammar of grammars>"]:
        big = os.path.getsize(f) > 20000 if os.path.exists(f) else False
        if big and tier == "quick":
            continue       # the Java grammar takes ~12 s per table
        out.append(dict(space="corpus", file=f,
                        seeds=pl["seeds"][:4 if tier == "quick" else 12]))
    return out


def sub(args, hashseed):
    pp = (os.environ["PGMC_REPO"] + ":" if os.environ.get("PGMC_REPO") else "") + ROOT
    env = dict(os.environ, PYTHONPATH=pp, PYTHONDONTWRITEBYTECODE="1",
               PYTHONHASHSEED=str(hashseed))
    r = subprocess.run([sys.executable, "-m", "props.c16_sub"] + args,
                       capture_output=True, text=True, env=env, cwd=ROOT,
                       timeout=1500)
    if r.returncode != 0:
        raise RuntimeError("c16_sub failed: " + r.stderr[-800:])
    return json.loads(r.stdout)


def corpus_unit(u):
    """the repo's example grammars and parglare's own grammar: serialised
    table digest under each hash seed, in fresh processes"""
    judge = Judge(PROP, KNOWN)
    code = r'''
import hashlib, json, sys, io, contextlib
from parglare import Grammar
from parglare.tables import create_table
from parglare.tables.persist import table_to_serializable
out = {}
f = sys.argv[1]
if f.startswith("<"):
    import parglare.grammar as G
    p = G.get_grammar_parser(False, False)
    t = p.table
    out[f] = hashlib.sha256(json.dumps(table_to_serializable(t), sort_keys=True).encode()).hexdigest()[:16]
else:
    try:
        with contextlib.redirect_stdout(io.StringIO()):
            g = Grammar.from_file(f, _no_check_recognizers=True)
            t = create_table(g)
        out[f] = hashlib.sha256(json.dumps(table_to_serializable(t), sort_keys=True).encode()).hexdigest()[:16]
    except Exception as e:
        out[f] = "EXC:" + type(e).__name__
json.dump(out, sys.stdout)
'''
    seen = {}
    runs = 0
    for hs in u["seeds"]:
        env = dict(os.environ, PYTHONHASHSEED=str(hs), PYTHONDONTWRITEBYTECODE="1")
        r = subprocess.run([sys.executable, "-c", code, u["file"]],
                           capture_output=True, text=True, env=env, timeout=900)
        if r.returncode != 0:
            judge.deviation(None, "corpus", "", str(hs), "corpus run failed",
                            {"err": r.stderr[-300:]}, {"seed": hs})
            continue
        runs += 1
        for f, d in json.loads(r.stdout).items():
            seen.setdefault(f, {}).setdefault(d, []).append(hs)
    for f, ds in seen.items():
        if len(ds) > 1:
            judge.deviation(None, "corpus", f, "", "serialised table differs "
                            "between hash seeds", {"digests": ds},
                            {"grammar_file": f, "seeds": ds})
    res = judge.result()
    res.update(evaluations=runs * len(seen), nontrivial=len(seen),
               corpus_files=len(seen), samples=[{"corpus": sorted(seen)[:4]}],
               states=0, transitions=0, traces=runs)
    return res


LONG = "T_" + "very_long_terminal_name_" * 2
MODULES = [
    "R: T ';';\nterminals\nT: /\\w+/;\n",
    "R: T | T T;\nterminals\nT: /[a-z]/;\n",
    "R: T ';' | U ';';\nterminals\nT: /\\w+/;\nU: /[a-z]+/;\n",
    "R: 't' Q;\nQ: T | EMPTY;\nterminals\nT: /\\w/;\n",
    # names longer than any fixed-width sort key, equal in their first 40
    # characters, all of them reduce lookaheads of one state
    "R: Q " + LONG + "1 | Q " + LONG + "2 | Q " + LONG + "3;\nQ: 't';\n"
    "terminals\n" + LONG + "1: /x/;\n" + LONG + "2: /y/;\n"
    + LONG + "3: /z/;\n",
]
ROOTS = [
    "import 'a.pg' as a;\nimport 'b.pg' as b;\nS: X+;\nX: a.R | b.R;\n",
    "import 'b.pg';\nimport 'a.pg';\nS: a.R b.R | b.R a.R | a.R;\n",
]


def modular_unit(u):
    """grammars split over files whose modules declare symbols with the SAME
    short names (a.T, b.T): serialised table and forest order under each hash
    seed, in fresh processes"""
    import shutil
    import tempfile
    judge = Judge(PROP, KNOWN)
    code = r'''
import hashlib, json, sys, io, contextlib, os
from parglare import Grammar, GLRParser
from parglare.tables import create_table
from parglare.tables.persist import table_to_serializable
d = sys.argv[1]
out = []
with contextlib.redirect_stdout(io.StringIO()):
    g = Grammar.from_file(os.path.join(d, "root.pg"))
    t = create_table(g, prefer_shifts=False, prefer_shifts_over_empty=False)
    out.append(json.dumps(table_to_serializable(t), sort_keys=True))
    out.append([(c.state.state_id, c.term.fqn, [p.prod_id for p in c.productions])
                for c in t.sr_conflicts + t.rr_conflicts])
    p = GLRParser(Grammar.from_file(os.path.join(d, "root.pg")), table=t)
for s in ["x;", "x; y;", "t x", "a b", "x y z", "t", "t t"]:
    try:
        f = p.parse(s)
        n = f.solutions
        out.append([f[i].to_str() for i in range(min(n, 12))])
    except Exception as e:
        out.append(type(e).__name__)
def forests(q):
    res = []
    for s in ["x;", "x; y;", "t x", "a b", "x y z", "t", "t t"]:
        try:
            f = q.parse(s)
            res.append([f[i].to_str() for i in range(min(f.solutions, 12))])
        except Exception as e:
            res.append(type(e).__name__)
    return res
# the same through the table cache: the first construction calculates the
# table and writes root.pgc, the second one loads it
with contextlib.redirect_stdout(io.StringIO()):
    p1 = GLRParser(Grammar.from_file(os.path.join(d, "root.pg")))
    a = forests(p1)
    had_cache = os.path.exists(os.path.join(d, "root.pgc"))
    p2 = GLRParser(Grammar.from_file(os.path.join(d, "root.pg")))
    b = forests(p2)
out.append(a)
for f_ in os.listdir(d):
    if f_.endswith((".pgc", ".tmp")):
        os.remove(os.path.join(d, f_))
print(hashlib.sha256(json.dumps(out).encode()).hexdigest()[:16]
      + ("" if a == b else " CACHE-ORDER") + ("" if had_cache else " NO-CACHE"))
'''
    runs = 0
    n = 0
    for mi, mod in enumerate(MODULES):
        for ri, root in enumerate(ROOTS):
            d = tempfile.mkdtemp(prefix="pgmc-c16m-")
            try:
                for nme, text in (("a.pg", mod), ("b.pg", mod), ("root.pg", root)):
                    open(os.path.join(d, nme), "w").write(text)
                digs = {}
                for hs in u["seeds"]:
                    pp = (os.environ["PGMC_REPO"] + ":" if os.environ.get(
                        "PGMC_REPO") else "")
                    env = dict(os.environ, PYTHONHASHSEED=str(hs),
                               PYTHONDONTWRITEBYTECODE="1",
                               **({"PYTHONPATH": pp} if pp else {}))
                    r = subprocess.run([sys.executable, "-c", code, d],
                                       capture_output=True, text=True, env=env,
                                       timeout=300)
                    runs += 1
                    key = r.stdout.strip() if r.returncode == 0 else \
                        "ERR:" + r.stderr.strip()[-120:]
                    digs.setdefault(key, []).append(hs)
                n += 1
                if any("CACHE-ORDER" in k for k in digs):
                    judge.deviation("NONDETERMINISM", "modular/cache",
                                    f"m{mi}/r{ri}", "",
                                    "forest order differs between the process "
                                    "that calculated the table and one that "
                                    "loaded it from the cache",
                                    {"digests": digs},
                                    {"files": {"a.pg": mod, "b.pg": mod,
                                               "root.pg": root}})
                if len(digs) != 1:
                    judge.deviation("NONDETERMINISM", "modular", f"m{mi}/r{ri}",
                                    "", "table / conflicts / forest order of a "
                                    "modular grammar depend on the hash seed",
                                    {"digests": digs},
                                    {"files": {"a.pg": mod, "b.pg": mod,
                                               "root.pg": root}})
            finally:
                shutil.rmtree(d, ignore_errors=True)
    res = judge.result()
    res.update(evaluations=runs, nontrivial=n, samples=[{"modular": n}],
               states=0, transitions=0, traces=runs)
    return res


def run_unit(u):
    if u["space"] == "modular":
        return modular_unit(u)
    if u["space"] == "corpus":
        return corpus_unit(u)
    judge = Judge(PROP, KNOWN)
    st = collections.Counter()
    base = [u["space"], str(u["lo"]), str(u["hi"])]
    runs = []
    for sl in u["slots"]:
        args = base + [f"slots:{sl}"] + ([u["aw"]] if u["aw"] else [])
        runs.append((f"slots:{sl}", sub(args, 0)))
    for hs in u["seeds"]:
        runs.append((f"seed:{hs}", sub(base + ["seed"], hs)))
    by = collections.defaultdict(dict)
    for name, out in runs:
        st["states"] += out["states"]
        st["transitions"] += out["transitions"]
        st["traces"] += out["traces"]
        for gk, v in out["res"].items():
            by[gk][name] = v
            st["evaluations"] += v["orders"]
    for gk, cfgs in by.items():
        digs = set()
        for name, v in cfgs.items():
            digs |= set(v["digests"])
        st["nontrivial"] += 1
        if len(digs) != 1:
            detail = {name: v["digests"] for name, v in cfgs.items()}
            judge.deviation("NONDETERMINISM", u["space"], gk, "",
                            "tables / conflict reports / forest order depend "
                            "on set iteration order or hash seed",
                            {"digests": detail},
                            {"grammar": gk, "configs": sorted(cfgs)})
    r = judge.result()
    r.update(st)
    r.update(samples=[{"grammars": f"{u['space']}[{u['lo']}:{u['hi']}]",
                       "configs": [n for n, _ in runs]}] if u["lo"] == 0 else [])
    return r


def evidence(total, tier, seed, complete):
    cov = {
        "states": total.get("states", 0),
        "transitions": total.get("transitions", 0),
        "traces_validated_against_impl": total.get("traces", 0),
        "evaluations": total.get("evaluations", 0),
        "distinct_nontrivial": total.get("nontrivial", 0),
        "rule": "for every grammar: the digest of (serialised LALR and SLR "
                "tables with strategies off/on, structural conflict lists, "
                "ordered to_str() of forest[0..12) for every input <= 3) under "
                "(a) every assignment of distinct small hashes to its "
                "terminals around fixed hashes of STOP and EMPTY - which "
                "realises every relative iteration order of the lookahead / "
                "FIRST / FOLLOW sets - plus colliding assignments, one fresh "
                "process per STOP/EMPTY placement, and (b) a fresh interpreter "
                "per PYTHONHASHSEED; all digests must coincide; evaluations = "
                "grammar x hash configuration; non-trivial = distinct grammar "
                "compared over all configurations; plus the repo's example "
                "grammars and parglare's own grammar under each seed",
        "samples": total.get("samples", [])[:4],
        "exhaustive": bool(complete),
        "domain": {k: str(v) for k, v in plan(tier, seed).items()},
        "corpus_files": total.get("corpus_files", 0),
    }
    return cov, [
        "exhaustive claim: set order under controlled hashes (sets of grammar "
        "symbols are the only hash-ordered containers on the table/forest "
        "paths); the PYTHONHASHSEED sweep is a finite confirmation",
        "the text of a conflict prints lookahead sets in set order; conflicts "
        "are compared structurally",
    ]


def replay(rec):
    return False, "re-run: python -m props.c16_sub <space> <lo> <hi> <mode>"
