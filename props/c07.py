"""C07 - token choice follows the documented lexical disambiguation order
(shape A, per state)."""
import collections
import itertools
import re

from pgmc import spaces
from pgmc.drive import (BudgetExceeded, ForestView, Monitor, build,
                        grammar_from_string, install_state_budget, parse,
                        tree_nodes)
from pgmc.findings import Judge, Known
from pgmc.ref.scanner import choose, pursued_without_disambiguation

PROP = "C07"
KNOWN = Known(PROP)
FLOOR = {"quick": 1000, "thorough": 5000}

# recogniser pool over the characters a, b
POOL = [("s", "a"), ("s", "aa"), ("s", "ab"), ("s", "b"),
        ("r", "a"), ("r", "a+"), ("r", "ab?"), ("r", "[ab]+"), ("r", "b"),
        ("c", "ab|a")]          # custom Python recogniser returning a tuple
SHORT_POOL = POOL
# string terminals of ten and more characters next to short ones (lengths
# with two digits: the order strings are tried in is "longest first")
LONG_POOL = [("s", "aa"), ("s", "a" * 10), ("s", "a" * 11), ("s", "ab"),
             ("s", "ab" * 5 + "a"), ("s", "a" * 9), ("r", "a+"), ("r", "[ab]+")]
LONG_INPUTS = ["a" * k for k in range(1, 14)] + \
    ["ab" * k + t for k in range(1, 7) for t in ("", "a", "b")] + \
    ["a" * k + "b" for k in (1, 2, 9, 10, 11)]
PRIOS = (9, 10, 11)
MARKS = (None, "finish", "nofinish")


def profiles(marks=False):
    out = []
    for ri, rec in enumerate(POOL):
        for pr in PRIOS:
            for pf in (False, True):
                for mk in (MARKS if marks else (None,)):
                    out.append((ri, pr, pf, mk))
    return out


def term_sets(size, marks=False):
    pro = profiles(marks)
    out = []
    for combo in itertools.combinations(range(len(pro)), size):
        recs = [pro[i][0] for i in combo]
        if len(set(recs)) != len(recs):
            continue           # one terminal per recogniser
        out.append(tuple(pro[i] for i in combo))
    return out


def plan(tier, seed):
    if tier == "quick":
        return [dict(size=1), dict(size=2),
                dict(size=3, win=(seed, 30)),
                dict(size=2, marks=True, win=(seed, 6)),
                dict(size=2, ignore_case=True, win=(seed, 4)),
                dict(size=2, long=True, win=(seed, 2)),
                dict(kw=True)]
    return [dict(size=1), dict(size=2), dict(size=3),
            dict(size=4, win=(0, 200)),
            dict(size=2, marks=True), dict(size=3, marks=True, win=(0, 40)),
            dict(size=2, ignore_case=True), dict(size=3, ignore_case=True,
                                                 win=(0, 10)),
            dict(size=2, long=True), dict(size=3, long=True, win=(0, 10)),
            dict(kw=True)]


def units(tier, seed):
    out = []
    for row in plan(tier, seed):
        if row.get("kw"):
            n = len(kw_grammars())
            out += [dict(kw=True, idx=list(range(i, min(i + 40, n))))
                    for i in range(0, n, 40)]
            continue
        use_pool(row.get("long", False))
        n = len(term_sets(row["size"], row.get("marks", False)))
        win = row.get("win")
        idxs = list(range(n)) if win is None else list(
            spaces.window(n, win[0], win[1]))
        for i in range(0, len(idxs), 25):
            out.append(dict(size=row["size"], marks=row.get("marks", False),
                            ignore_case=row.get("ignore_case", False),
                            idx=idxs[i:i + 25], long=row.get("long", False)))
    use_pool(False)
    return out


def use_pool(long):
    """the recogniser pool the profile indices refer to"""
    global POOL
    POOL = LONG_POOL if long else SHORT_POOL


def worker_init():
    install_state_budget(600)


def custom_rec(pattern, ic):
    rx = re.compile(pattern, re.IGNORECASE if ic else 0)

    def rec(inp, pos):
        m = rx.match(inp, pos)
        if m and m.group():
            return m.group(), "extra"
    return rec


def make_grammar(tset):
    """S: "1" X1 | "2" X2 ...; Xi: every non-empty subset of the terminals.
    Terminal names carry the profile so that name order varies."""
    names = []
    for i, (ri, pr, pf, mk) in enumerate(tset):
        names.append(f"T{(ri * 7 + pr) % 10}{'xyzw'[i]}")
    subsets = []
    for n in range(1, len(tset) + 1):
        subsets += list(itertools.combinations(range(len(tset)), n))
    sel = "123456789ABCDEFGHIJ"
    lines = ["S: " + " | ".join(f'"{sel[i]}" X{i}' for i in range(len(subsets)))
             + ";"]
    for i, sub in enumerate(subsets):
        lines.append(f"X{i}: " + " | ".join(names[j] for j in sub) + ";")
    lines.append("terminals")
    recs = {}
    for nme, (ri, pr, pf, mk) in zip(names, tset):
        kind, text = POOL[ri]
        meta = [str(pr)] + (["prefer"] if pf else []) + ([mk] if mk else [])
        m = " {" + ", ".join(meta) + "}"
        if kind == "s":
            lines.append(f'{nme}: "{text}"{m};')
        elif kind == "r":
            lines.append(f"{nme}: /{text}/{m};")
        else:
            lines.append(f"{nme}: {m};")
            recs[nme] = text
    return "\n".join(lines) + "\n", names, subsets, sel, recs


def matcher(kind, text, ic):
    if kind == "s":
        def m(s, i):
            seg = s[i:i + len(text)]
            if (seg.lower() == text.lower()) if ic else (seg == text):
                return text          # parglare returns the grammar's spelling
        return m
    rx = re.compile(text, re.MULTILINE | re.VERBOSE | (re.IGNORECASE if ic else 0)
                    ) if kind == "r" else re.compile(text, re.IGNORECASE if ic else 0)

    def m(s, i):
        mm = rx.match(s, i)
        if mm and mm.group():
            return mm.group()
    return m


# KEYWORD family: keyword terminals (strings that match the KEYWORD rule
# completely become word-delimited regexes) of one priority, expected in the
# same state, some a word-boundary-delimited prefix of another, declared under
# names of different lengths: the longest matching keyword is the token.
KW_POOL = ["a", "a-a", "a-b", "a-a-a", "ab", "b", "a-"]   # "a-": plain string
KW_RULE = r"\w+(-\w+)*"
KW_INPUTS = KW_POOL + ["", "a-", "a-c", "aa", "a-a-b", "a-ab", "b-a", "a-a-",
                       "a-a-a-a", "ab-a", "c"]
KW_NAMELEN = (1, 4, 8)


def kw_grammars():
    out = []
    for n in (1, 2, 3):
        for sub in itertools.combinations(range(len(KW_POOL)), n):
            for lens in itertools.permutations(KW_NAMELEN, n):
                out.append((sub, lens))
    return out


def run_kw_unit(u):
    mon = Monitor()
    judge = Judge(PROP, KNOWN)
    st = collections.Counter()
    allg = kw_grammars()
    samples = []
    cfg = "keywords"
    for gi in u["idx"]:
        sub, lens = allg[gi]
        names = ["T" + "x" * (ln - 1) + str(i) for i, ln in enumerate(lens)]
        text = "S: " + " | ".join(names) + ";\nterminals\n" + "".join(
            f"{nm}: '{KW_POOL[k]}';\n" for nm, k in zip(names, sub)) + \
            "KEYWORD: /" + KW_RULE + "/;\n"
        try:
            lr = build("lr", grammar_from_string(text), mon, tag=(gi, "kw"),
                       build_tree=True, consume_input=False, ws="")
        except (Exception, BudgetExceeded) as e:      # noqa: BLE001
            judge.deviation(None, cfg, text, "", "construction failed",
                            {"type": type(e).__name__, "m": str(e)[:100]},
                            {"grammar": text})
            continue
        st["grammars"] += 1
        for w in KW_INPUTS:
            # a string that the KEYWORD rule matches completely is a keyword
            # (word-delimited), any other string matches as a plain prefix
            cands = [(nm, KW_POOL[k]) for nm, k in zip(names, sub)
                     if (re.match(r"\b" + re.escape(KW_POOL[k]) + r"\b", w)
                         if re.fullmatch(KW_RULE, KW_POOL[k])
                         else w.startswith(KW_POOL[k]))]
            want = ("token", max(cands, key=lambda c: len(c[1]))) \
                if cands else ("none",)
            case = {"grammar": text, "parser": "lr", "input": w,
                    "options": {"consume_input": False, "ws": "",
                                "build_tree": True}}
            o = parse(lr, w, mon)
            st["evaluations"] += 1
            if len(cands) >= 2:
                st["nontrivial"] += 1
            if o.kind == "ok":
                leaves = [n for n, _ in tree_nodes(o.value) if n.is_term()]
                got = ("token", (leaves[0].symbol.name, leaves[0].value)) \
                    if leaves else ("none",)
            elif o.kind == "syntax":
                got = ("none",)
            else:
                got = ("other", o.brief())
            if got != want:
                judge.deviation("SCANNER-ORDER", cfg, text, w,
                                "among keyword terminals of one priority the "
                                "longest match is not the token",
                                {"got": _j(got), "want": _j(want)}, case)
        if not samples:
            samples.append({"grammar": text, "inputs": KW_INPUTS})
    r = judge.result()
    r.update(st)
    r.update(states=len(mon.states), transitions=mon.transitions,
             traces=mon.traces, samples=samples)
    return r


def run_unit(u):
    if u.get("kw"):
        return run_kw_unit(u)
    mon = Monitor()
    judge = Judge(PROP, KNOWN)
    st = collections.Counter()
    use_pool(u.get("long", False))
    tsets = term_sets(u["size"], u["marks"])
    ic = u["ignore_case"]
    inputs = spaces.strings("aAb" if ic else "ab", 3 if ic else 4)
    if u.get("long"):
        inputs = LONG_INPUTS
    samples = []
    for ti in u["idx"]:
        tset = tsets[ti]
        text, names, subsets, sel, recs = make_grammar(tset)
        cfg = f"size{u['size']}/marks={int(u['marks'])}/ic={int(ic)}"
        gk = text
        kw = {"ignore_case": True} if ic else {}
        if recs:
            kw["recognizers"] = {n: custom_rec(p, ic) for n, p in recs.items()}
        try:
            lr = build("lr", grammar_from_string(text, **kw), mon, tag=(ti, "lr"),
                       build_tree=True, consume_input=False, ws="")
            glr = build("glr", grammar_from_string(text, **kw), mon,
                        tag=(ti, "glr"), consume_input=False, ws="")
        except (Exception, BudgetExceeded) as e:      # noqa: BLE001
            judge.deviation(None, cfg, gk, "", "construction failed",
                            {"type": type(e).__name__, "m": str(e)[:100]},
                            {"grammar": text})
            continue
        st["grammars"] += 1
        ms = [matcher(POOL[ri][0], POOL[ri][1], ic) for (ri, _, _, _) in tset]
        for si, sub in enumerate(subsets):
            for w in inputs:
                s = sel[si] + w
                cands = []
                for j in sub:
                    v = ms[j](s, 1)
                    if v is not None:
                        ri, pr, pf, mk = tset[j]
                        kind = POOL[ri][0]
                        cands.append((names[j], kind, pr, pf, v))
                # tier B: explicit marks
                judged = True
                eff = cands
                if u["marks"] and cands:
                    # `nofinish` on a string disables the short-circuit after
                    # its match (test_nofinish): the scan goes on, and what is
                    # found later competes with it by length.  Strings are
                    # tried longest first, so as soon as a string *with* the
                    # short-circuit matches, the outcome is the longest
                    # matching string; only if every matching string is
                    # `nofinish` do the regexes join the competition.
                    top = max(c[2] for c in cands)
                    group = [c for c in cands if c[2] == top]
                    mark = {c[0]: tset[names.index(c[0])][3] for c in group}
                    fin_str = [c for c in group
                               if c[1] == "s" and mark[c[0]] != "nofinish"]
                    eff = []
                    for c in group:
                        kind = c[1]
                        if kind == "s" and not fin_str:
                            kind = "r"     # competes by length with regexes
                        eff.append((c[0], kind, c[2], c[3], c[4]))
                    # explicit finish on a regex competing with another regex
                    # of the same priority: the docs do not say which wins
                    for c in cands:
                        mk = tset[names.index(c[0])][3]
                        if mk == "finish" and c[1] != "s":
                            if any(d is not c and d[2] == c[2] and d[1] != "s"
                                   for d in cands):
                                judged = False
                    # finish on a string is the default; nofinish on a regex
                    # is the default
                want = choose(eff)
                case = {"grammar": text, "parser": "lr", "input": s,
                        "options": {"consume_input": False, "ws": "",
                                    "build_tree": True},
                        "ignore_case": ic}
                o = parse(lr, s, mon)
                st["evaluations"] += 1
                if len(cands) >= 2:
                    st["nontrivial"] += 1
                if o.kind == "ok":
                    leaves = [n for n, _ in tree_nodes(o.value) if n.is_term()]
                    got = ("token", (leaves[1].symbol.name, leaves[1].value)) \
                        if len(leaves) >= 2 else ("none",)
                elif o.kind == "disamb":
                    got = ("ambiguous", frozenset(
                        (t.symbol.name, t.value) for t in o.exc.tokens))
                elif o.kind == "syntax":
                    got = ("none",)
                else:
                    got = ("other", o.brief())
                if want[0] == "token":
                    w2 = ("token", (want[1][0], want[1][4]))
                elif want[0] == "ambiguous":
                    w2 = ("ambiguous", frozenset((c[0], c[4]) for c in want[1]))
                else:
                    w2 = want
                if not judged:
                    st["unjudged_finish_vs_regex"] += 1
                    names_in = {c[0] for c in cands}
                    ok = (got[0] == "none" and not cands) or \
                        (got[0] == "token" and got[1][0] in names_in) or \
                        (got[0] == "ambiguous"
                         and {x[0] for x in got[1]} <= names_in)
                    if not ok:
                        judge.deviation(None, cfg, gk, s,
                                        "scanner outcome outside the candidate "
                                        "set", {"got": str(got)}, case)
                elif got != w2:
                    judge.deviation("SCANNER-ORDER", cfg, gk, s,
                                    "token choice differs from the documented "
                                    "disambiguation order",
                                    {"got": _j(got), "want": _j(w2),
                                     "candidates": [list(map(str, c))
                                                    for c in cands]}, case)
                # GLR, lexical disambiguation off
                og = parse(glr, s, mon)
                st["evaluations"] += 1
                wantg = frozenset((c[0], c[4]) for c in
                                  pursued_without_disambiguation(cands))
                if og.kind == "ok":
                    fv = ForestView(og.value.result)
                    gotg = set()
                    for nd in fv.order:
                        alts = nd.possibilities if hasattr(nd, "possibilities") \
                            else [nd]
                        for a in alts:
                            if a.is_term() and a.start_position == 1:
                                gotg.add((a.symbol.name, a.value))
                    gotg = frozenset(gotg)
                elif og.kind == "syntax":
                    gotg = frozenset()
                else:
                    gotg = ("other", og.brief())
                if gotg != wantg:
                    judge.deviation("SCANNER-GLR-FORKS", cfg, gk, s,
                                    "GLR without lexical disambiguation does "
                                    "not pursue exactly the matching expected "
                                    "terminals of the highest priority",
                                    {"got": _j(gotg), "want": _j(wantg)},
                                    dict(case, parser="glr"))
        if not samples:
            samples.append({"grammar": text, "inputs": f"selector + all "
                            f"{len(inputs)} strings", "subsets": len(subsets)})
    r = judge.result()
    r.update(st)
    r.update(states=len(mon.states), transitions=mon.transitions,
             traces=mon.traces, samples=samples)
    return r


def _j(x):
    if isinstance(x, (set, frozenset)):
        return sorted(_j(y) for y in x)
    if isinstance(x, tuple):
        return [_j(y) for y in x]
    return x


def evidence(total, tier, seed, complete):
    cov = {
        "states": total.get("states", 0),
        "transitions": total.get("transitions", 0),
        "traces_validated_against_impl": total.get("traces", 0),
        "evaluations": total.get("evaluations", 0),
        "distinct_nontrivial": total.get("nontrivial", 0),
        "rule": "every set of <= 3 (4) terminal profiles (recogniser from a "
                "pool of 4 strings, 5 regexes, 1 custom recogniser x priority "
                "{9,10,11} x prefer x [finish/nofinish marks]) x every "
                "non-empty subset made the expected set of one LR state by a "
                "selector x every input <= 4 over {a,b} (ignore_case: {a,A,b} "
                "<= 3); LR token choice against the documented rule list on "
                "the full candidate set; GLR forks without lexical "
                "disambiguation; non-trivial = >= 2 candidates match; "
                "KEYWORD family: every set of <= 3 keyword terminals from "
                "{a, a-a, a-b, a-a-a, ab, b} and the plain string a- (KEYWORD: /\\w+(-\\w+)*/) x every "
                "assignment of rule-name lengths {1,4,8} x 17 inputs, LR token "
                "= longest word-delimited match",
        "samples": total.get("samples", [])[:4],
        "exhaustive": bool(complete),
        "domain": [{k: str(v) for k, v in row.items()}
                   for row in plan(tier, seed)],
        "unjudged_explicit_finish_vs_same_priority_regex":
            total.get("unjudged_finish_vs_regex", 0),
    }
    return cov, ["reference: docs/disambiguation.md as pgmc/ref/scanner.py",
                 "explicit `finish` on a regex competing with another regex of "
                 "the same priority is checked for robustness only (docs do "
                 "not define the winner)"]


def replay(rec):
    return False, "run the stand-alone script stored in the replay file"
