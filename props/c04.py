"""C04 - the LR parser is sound always and exact when its table is
deterministic (shapes A+B)."""
import collections

from parglare.tables import REDUCE, SHIFT

from pgmc import spaces
from pgmc.drive import (BudgetExceeded, ForestView, Monitor, build,
                        grammar_from_string, install_state_budget, parse,
                        tree_canon)
from pgmc.findings import Judge, Known
from pgmc.ref.cfg import CharRef, TooMany
from pgmc.ref.earley import Earley

PROP = "C04"
KNOWN = Known(PROP)
FLOOR = {"quick": 1000, "thorough": 5000}
CHUNK = 30
SPACES = {
    "k3": dict(nts=("S", "A"), ts=("a", "b"), r=2, k=3),
    "k4only": dict(nts=("S", "A"), ts=("a", "b"), r=2, k=4, kmin=4),
    "r3": dict(nts=("S", "A"), ts=("a", "b"), r=3, k=3),
}
CONFIGS = [(t, ps, pse) for t in ("LALR", "SLR") for ps in (False, True)
           for pse in (False, True)]


def plan(tier, seed):
    if tier == "quick":
        return [dict(space="k3", alpha="ab ", nmax=4),
                dict(space="k4only", win=(seed, 40), alpha="ab", nmax=4)]
    return [dict(space="k3", alpha="ab ", nmax=5),
            dict(space="k4only", alpha="ab", nmax=5),
            dict(space="r3", win=(0, 4), alpha="ab", nmax=4)]


def units(tier, seed):
    out = []
    for row in plan(tier, seed):
        n = len(spaces.grammars(**SPACES[row["space"]]))
        win = row.get("win")
        idxs = list(range(n)) if win is None else list(
            spaces.window(n, win[0], win[1]))
        for i in range(0, len(idxs), CHUNK):
            out.append({"space": row["space"], "idx": idxs[i:i + CHUNK],
                        "alpha": row["alpha"], "nmax": row["nmax"]})
    return out


def worker_init():
    install_state_budget(400)


def generated_inputs(table, terms, earley, ys):
    """inputs that drive the real driver into every state of its own table:
    shortest access string of every state, followed by every terminal / end,
    and a shortest completion when that is viable"""
    acc = {0: ()}
    work = collections.deque([0])
    while work:
        q = work.popleft()
        st = table.states[q]
        nxt = []
        for t, acts in st.actions.items():
            for a in acts:
                if a.action == SHIFT:
                    nxt.append((t.name, a.state.state_id))
        for nt, s2 in st.gotos.items():
            nxt.append((nt.name, s2.state_id))
        for X, q2 in nxt:
            if q2 not in acc and X in ys:
                acc[q2] = acc[q] + tuple(ys[X])
                work.append(q2)
    out = set()
    for q, w in acc.items():
        if len(w) > 8:
            continue
        for t in list(terms) + [None]:
            toks = w + ((t,) if t else ())
            out.add(toks)
            # shortest completion
            _, viable, _, _ = earley.analyse(list(toks))
            if viable == len(toks):
                frontier = [toks]
                found = None
                for _ in range(4):
                    nf = []
                    for x in frontier:
                        sent, v, exp, _ = earley.analyse(list(x))
                        if sent:
                            found = x
                            break
                        for e in sorted(exp):
                            nf.append(x + (e,))
                    if found or not nf:
                        break
                    frontier = nf[:64]
                if found:
                    out.add(found)
    return sorted(out)


def shortest_yields(prods, terms):
    y = {t: (t,) for t in terms}
    ch = True
    while ch:
        ch = False
        for l, r in prods:
            if all(x in y for x in r):
                cand = tuple(t for x in r for t in y[x])
                if l not in y or len(cand) < len(y[l]):
                    y[l] = cand
                    ch = True
    return y


def run_unit(u):
    sp = SPACES[u["space"]]
    nts, ts = sp["nts"], sp["ts"]
    gs = spaces.grammars(**sp)
    base_inputs = spaces.strings(u["alpha"], u["nmax"])
    mon = Monitor()
    judge = Judge(PROP, KNOWN)
    st = collections.Counter()
    samples = []
    for gi in u["idx"]:
        prods = gs[gi]
        gk = spaces.gkey(prods, nts)
        ordered = spaces.ordered_prods(prods, nts)
        text = spaces.render_grammar(prods, nts, "M0")
        ref = CharRef(ordered, nts[0], spaces.LEXMAPS["M0"], ws=" ")
        earley = Earley(ordered, nts[0])
        ys = shortest_yields(ordered, ts)
        ans = {}
        glr = {}
        for (tk, ps, pse) in CONFIGS:
            cfg = f"{tk}/ps={int(ps)}/pse={int(pse)}"
            opts = {"tables": tk, "prefer_shifts": ps,
                    "prefer_shifts_over_empty": pse, "ws": " ",
                    "build_tree": True}
            try:
                g = grammar_from_string(text)
                p = build("lr", g, mon, tag=(gi, cfg), **opts)
            except (Exception, BudgetExceeded):    # noqa: BLE001
                st["no_parser"] += 1
                continue
            st["parsers"] += 1
            det = (not ps and not pse and all(
                len(acts) == 1 for s_ in p.table.states
                for acts in s_.actions.values()))
            if det:
                st["deterministic_tables"] += 1
                if tk not in glr:
                    glr[tk] = build("glr", grammar_from_string(text), mon,
                                    tag=(gi, tk, "glr"), tables=tk, ws=" ")
            inputs = list(base_inputs)
            seen_in = set(inputs)
            for toks in generated_inputs(p.table, ts, earley, ys):
                s = "".join(toks)
                if s not in seen_in:
                    seen_in.add(s)
                    inputs.append(s)
            st["generated_inputs"] += len(inputs) - len(base_inputs)
            for s in inputs:
                an = ans.get(s)
                if an is None:
                    an = ans[s] = ref.analyse(s)
                o = parse(p, s, mon)
                st["evaluations"] += 1
                case = {"grammar": text, "parser": "lr", "options": opts,
                        "input": s}
                if o.kind == "ok":
                    st["accepted"] += 1
                    if not an.sentence:
                        judge.deviation(None, cfg, gk, s,
                                        "Parser accepted a non-sentence", {}, case)
                        continue
                    try:
                        want = set(an.trees(2000))
                    except TooMany:
                        want = None
                    t = tree_canon(o.value)
                    if want is not None and t not in want:
                        judge.deviation("LR-INVALID-TREE", cfg, gk, s,
                                        "Parser built a tree that is not a "
                                        "derivation of the input",
                                        {"tree": t}, case)
                    if det:
                        st["nontrivial"] += 1
                        if an.count != 1:
                            judge.deviation(None, cfg, gk, s,
                                            "deterministic table but the "
                                            "sentence has several derivations",
                                            {"count": str(an.count)}, case)
                        og = parse(glr[tk], s, mon)
                        if og.kind != "ok":
                            judge.deviation("GLR-REJECTS-SENTENCE", cfg, gk, s,
                                            "GLRParser fails where the "
                                            "deterministic Parser succeeds",
                                            {"glr": og.brief()}, case)
                        else:
                            fv = ForestView(og.value.result)
                            gt = fv.trees(50)
                            if gt is None or len(gt) != 1 or gt[0] != t:
                                judge.deviation(
                                    None, cfg, gk, s,
                                    "GLRParser does not return exactly "
                                    "Parser's tree on a deterministic table",
                                    {"glr": gt if gt is None else gt[:3],
                                     "lr": t}, case)
                elif o.kind == "syntax":
                    if an.sentence:
                        if det:
                            judge.deviation(None, cfg, gk, s,
                                            "deterministic table but Parser "
                                            "rejects a sentence",
                                            {"o": o.brief()}, case)
                        else:
                            st["sentences_rejected_by_resolved_conflicts"] += 1
                elif o.kind == "budget":
                    st["budget_exceeded"] += 1
                    if det:
                        judge.deviation(None, cfg, gk, s, "deterministic table "
                                        "but Parser does not terminate", {}, case)
                elif o.kind == "disamb":
                    st["disamb"] += 1
                else:
                    judge.deviation(None, cfg, gk, s,
                                    f"Parser raised {o.brief()}",
                                    {"type": type(o.exc).__name__}, case)
        if not samples:
            samples.append({"grammar": gk, "configs": 8,
                            "inputs": f"all {len(base_inputs)} strings over "
                            f"{u['alpha']!r} up to {u['nmax']} + inputs "
                            "generated from every state of the table"})
    r = judge.result()
    r.update(st)
    r.update(states=len(mon.states), transitions=mon.transitions,
             traces=mon.traces, samples=samples)
    return r


def evidence(total, tier, seed, complete):
    cov = {
        "states": total.get("states", 0),
        "transitions": total.get("transitions", 0),
        "traces_validated_against_impl": total.get("traces", 0),
        "evaluations": total.get("evaluations", 0),
        "distinct_nontrivial": total.get("nontrivial", 0),
        "rule": "every grammar x {LALR,SLR} x prefer_shifts x "
                "prefer_shifts_over_empty for which Parser(build_tree=True) "
                "constructs x (every string up to the bound + access string of "
                "every state of the parser's own table followed by every "
                "terminal and a shortest completion); non-trivial = sentence "
                "accepted by a deterministic table (exactness clause "
                "exercised); states = distinct (parser, LR stack) "
                "configurations at a shift/reduce",
        "samples": total.get("samples", [])[:6],
        "exhaustive": bool(complete),
        "domain": [{k: str(v) for k, v in row.items()}
                   for row in plan(tier, seed)],
    }
    for k in ("parsers", "no_parser", "deterministic_tables", "accepted",
              "generated_inputs", "budget_exceeded", "disamb",
              "sentences_rejected_by_resolved_conflicts"):
        cov[k] = total.get(k, 0)
    return cov, [
        "reference: character-level chart/SPPF; Earley for generated inputs",
        "LR non-termination with resolved conflicts (budget_exceeded) is "
        "counted, not judged: C04 promises soundness there, not termination",
        "bounded: grammars <= k productions, inputs <= n characters plus "
        "automaton-generated inputs",
    ]


def replay(rec):
    return False, "run the stand-alone script stored in the replay file"
