"""Self-test of the harness (not a property check, not in MANIFEST.json): the
reference models are cross-checked against each other where they overlap.

  chart acceptance (ref/cfg.py)  ==  Earley acceptance (ref/earley.py)
  ==  character-level Earley (token lattice)  ==  a saturating recogniser run
  on the *canonical LR(1)* reference automaton (ref/lr1.py);
  derivation counts of the chart == number of enumerated trees.
"""
import collections

from pgmc import spaces
from pgmc.findings import Judge, Known
from pgmc.ref.cfg import INF, CharRef, Matchers, ws_skipper
from pgmc.ref.earley import CharEarley, Earley
from pgmc.ref.lr1 import EOF_, LR1

PROP = "SELFTEST"
KNOWN = Known(PROP)
FLOOR = {"quick": 2, "thorough": 2}
SP = dict(nts=("S", "A"), ts=("a", "b"), r=2, k=3)


def units(tier, seed):
    n = len(spaces.grammars(**SP))
    return [dict(idx=list(range(i, min(n, i + 60)))) for i in range(0, n, 60)]


def lr1_accepts(R, toks):
    """saturating GSS recogniser over the canonical LR(1) actions"""
    n = len(toks)
    preds = {(0, 0): set()}
    level = {(0, 0)}
    accepted = False
    for pos in range(n + 1):
        la = toks[pos] if pos < n else EOF_
        changed = True
        while changed:
            changed = False
            for node in list(level):
                for a in R.actions[node[0]].get(la, ()):
                    if a[0] == "r":
                        l, rhs = R.prods[a[1]]
                        roots = {node}
                        for _ in rhs:
                            roots = {r for x in roots for r in preds[x]}
                        for r in roots:
                            t = R.trans.get((r[0], l))
                            if t is None:
                                continue
                            tgt = (t, pos)
                            if tgt not in preds:
                                preds[tgt] = set()
                                level.add(tgt)
                                changed = True
                            if r not in preds[tgt]:
                                preds[tgt].add(r)
                                changed = True
                    elif a[0] == "acc":
                        accepted = True
        nxt = set()
        for node in level:
            if ("s",) in R.actions[node[0]].get(la, ()):
                t = R.trans.get((node[0], la))
                tgt = (t, pos + 1)
                preds.setdefault(tgt, set()).add(node)
                nxt.add(tgt)
        level = nxt
        if not level:
            break
    return accepted


def run_unit(u):
    gs = spaces.grammars(**SP)
    judge = Judge(PROP, KNOWN)
    st = collections.Counter()
    inputs = spaces.strings("ab", 4)
    for gi in u["idx"]:
        prods = spaces.ordered_prods(gs[gi], SP["nts"])
        gk = spaces.gkey(prods, SP["nts"])
        ref = CharRef(prods, "S", spaces.LEXMAPS["M0"], ws="")
        e = Earley(prods, "S")
        used = {x for _, r in prods for x in r if x in ("a", "b")}
        ce = CharEarley(prods, "S", Matchers({t: spaces.LEXMAPS["M0"][t]
                                              for t in used}), ws_skipper(""))
        R = LR1(prods, "S", SP["ts"])
        for s in inputs:
            an = ref.analyse(s)
            a = an.sentence
            b = e.analyse(list(s))[0]
            c = ce.analyse(s)["sentence"]
            d = lr1_accepts(R, list(s))
            st["evaluations"] += 1
            if a:
                st["nontrivial"] += 1
            if not (a == b == c == d):
                judge.deviation(None, "refs", gk, s, "reference models disagree "
                                "on acceptance", {"chart": a, "earley": b,
                                                  "char_earley": c, "lr1": d},
                                {"grammar": gk, "input": s})
            if a and an.count != INF and an.count <= 500:
                if len(set(an.trees(500))) != an.count:
                    judge.deviation(None, "refs", gk, s, "chart count != "
                                    "number of distinct enumerated trees",
                                    {"count": str(an.count)},
                                    {"grammar": gk, "input": s})
    r = judge.result()
    r.update(st)
    r.update(states=1, transitions=st["evaluations"], traces=0,
             samples=[{"grammars": len(u["idx"])}])
    return r


def evidence(total, tier, seed, complete):
    return ({"states": 1, "transitions": total.get("transitions", 1),
             "traces_validated_against_impl": 0,
             "evaluations": total.get("evaluations", 0),
             "distinct_nontrivial": total.get("nontrivial", 0),
             "rule": "harness self-test: four reference recognisers on every "
                     "grammar with <= 3 productions x every input <= 4",
             "samples": total.get("samples", [])[:1],
             "exhaustive": bool(complete)}, ["self-test only"])


def replay(rec):
    return False, "n/a"
