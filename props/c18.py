"""C18 - the dynamic disambiguation filter sees every marked decision and
only those (shape A)."""
import collections
import itertools

from parglare import REDUCE, SHIFT
from parglare.exceptions import DynamicDisambiguationConflict

from pgmc import spaces
from pgmc.drive import (BudgetExceeded, ForestView, Monitor, build,
                        grammar_from_string, install_state_budget, parse,
                        tree_nodes)
from pgmc.findings import Judge, Known
from pgmc.ref.prec import expressions, parse_expr
from props.c06 import weak_orderings

PROP = "C18"
KNOWN = Known(PROP)
FLOOR = {"quick": 500, "thorough": 2000}
OPS = "+*-"
NAMES = {"+": "p", "*": "m", "-": "s"}


def grammar(k, pmarks, tmarks, nmark=False, layout=False, rule_level=False):
    ops = OPS[:k]
    # rule_level: every production is marked - written once in the rule's
    # own meta-data block instead of on each production
    alts = [f"E {NAMES[o]} E" + (" {dynamic}" if pm and not rule_level else "")
            for o, pm in zip(ops, pmarks)]
    # the atom production is reduced in conflict-free states
    lines = ["E" + (" {dynamic}" if rule_level else "") + ": "
             + " | ".join(alts) + " | n"
             + (" {dynamic}" if nmark and not rule_level else "") + ";"]
    if layout:
        # a LAYOUT rule makes the parser run a sub-parser between tokens;
        # the filter belongs to the main parse only
        lines.append("LAYOUT: sp | EMPTY;")
    lines.append("terminals")
    if layout:
        lines.append("sp: /\\s+/;")
    for o, tm in zip(ops, tmarks):
        lines.append(f'{NAMES[o]}: "{o}"' + (" {dynamic}" if tm else "") + ";")
    lines.append('n: "n";')
    return "\n".join(lines) + "\n"


def plan(tier, seed):
    if tier == "quick":
        return [dict(k=2, maxops=4), dict(k=3, maxops=3, win=(seed, 2))]
    return [dict(k=2, maxops=5), dict(k=3, maxops=4)]


def units(tier, seed):
    out = []
    for row in plan(tier, seed):
        k = row["k"]
        marks = list(itertools.product((False, True), repeat=2 * k + 1))
        win = row.get("win")
        idxs = list(range(len(marks))) if win is None else list(
            spaces.window(len(marks), win[0], win[1]))
        for i in idxs:
            out.append(dict(k=k, maxops=row["maxops"], marks=list(marks[i])))
            if k == 2:
                out.append(dict(k=k, maxops=min(3, row["maxops"]),
                                marks=list(marks[i]), layout=True))
            if all(marks[i][:k]) and marks[i][2 * k]:
                # all productions marked: also spelled on the rule level
                out.append(dict(k=k, maxops=row["maxops"],
                                marks=list(marks[i]), rule_level=True))
    return out


def worker_init():
    install_state_budget(600)


_units = units


def units(tier, seed):     # noqa: F811
    return _units(tier, seed) + [dict(empty_dynamic=True, k=0, marks=[])]


class Recorder:
    """accept-all (or reject reductions of one production) and record"""

    def __init__(self, reject_prod=None):
        self.calls = []
        self.reject = reject_prod

    def __call__(self, context, from_state, to_state, action, production,
                 subresults):
        self.calls.append((context, from_state, to_state, action, production,
                           subresults))
        if action is None:
            return None
        if action is REDUCE and self.reject is not None and \
                production.prod_id == self.reject:
            return False
        return True


def discipline(calls, g):
    """violations of the call discipline in one parse's recorded calls"""
    probs = []
    if not calls:
        return [("filter never called",)]
    first = calls[0]
    if any(x is not None for x in first[1:]):
        probs.append(("first call is not the all-None initialisation",))
    for c in calls[1:]:
        ctx, fs, ts, action, prod, subs = c
        if action is None:
            probs.append(("initialisation call repeated inside a parse",))
        elif action is SHIFT:
            if not ts.symbol.dynamic:
                probs.append(("SHIFT of an unmarked terminal offered",
                              ts.symbol.name))
        elif action is REDUCE:
            if prod is None or not prod.dynamic:
                probs.append(("REDUCE of an unmarked production offered",
                              str(prod)))
            elif subs is None or len(subs) != len(prod.rhs):
                probs.append(("sub-results do not match the production",
                              str(prod), len(subs) if subs is not None else None))
        else:
            probs.append(("unknown action", str(action)))
    return probs


def marked_decisions(tree):
    """marked reductions / shifts a derivation contains"""
    out = set()
    for node, _ in tree_nodes(tree):
        if node.is_term():
            if node.symbol.dynamic:
                out.add(("S", node.symbol.name))
        elif node.production.dynamic:
            out.add(("R", node.production.prod_id))
    return out


def offered(calls):
    out = set()
    for c in calls[1:]:
        if c[3] is SHIFT:
            out.add(("S", c[2].symbol.name))
        elif c[3] is REDUCE and c[4] is not None:
            out.add(("R", c[4].prod_id))
    return out


def forest_sig(f):
    fv = ForestView(f.result)
    n = fv.count()
    return sorted(f[i].to_str() for i in range(min(n, 60))), str(n)


def prec_filter(table, g):
    """docs-style filter encoding a fixed operator table op -> (prio, assoc)"""
    def name2op(sym):
        for o, nme in NAMES.items():
            if nme == sym.name:
                return o
        return None

    def f(context, from_state, to_state, action, production, subresults):
        if action is None:
            return None
        if action is SHIFT:
            operation = context.token.symbol
        else:
            operation = context.token_ahead.symbol
        acts = from_state.actions.get(operation, [])
        if action is SHIFT:
            reds = [a for a in acts if a.action is REDUCE]
            if not reds:
                return True
            red_op = name2op(reds[0].prod.rhs[1])
            o = name2op(operation)
            p1, a1 = table[o]
            p2, a2 = table[red_op]
            return p1 > p2 or (p1 == p2 and a2 == "right")
        red_op = name2op(production.rhs[1])
        o = name2op(operation)
        if o is None:
            return True
        p1, a1 = table[o]
        p2, a2 = table[red_op]
        return p1 < p2 or (p1 == p2 and a2 == "left")
    return f


def shape_filter(table):
    """a filter that encodes the operator table by looking at the
    *sub-results* of the reduction it is asked about (GLR: the operands are
    forest links; every alternative they hold is inspected)"""
    def name2op(sym):
        for o, nme in NAMES.items():
            if nme == sym.name:
                return o
        return None

    def top_ops(link):
        out = []
        for alt in getattr(link, "possibilities", []):
            if alt.is_nonterm() and len(alt.production.rhs) == 3:
                out.append(name2op(alt.production.rhs[1]))
        return out

    def f(context, from_state, to_state, action, production, subresults):
        if action is None:
            return None
        if action is not REDUCE or len(production.rhs) != 3:
            return True
        p, a = table[name2op(production.rhs[1])]
        for c in top_ops(subresults[0]):      # left operand
            pc, _ = table[c]
            if pc < p or (pc == p and a == "right"):
                return False
        for c in top_ops(subresults[2]):      # right operand
            pc, _ = table[c]
            if pc < p or (pc == p and a == "left"):
                return False
        return True
    return f


EMPTY_DYN = ('L: S | L c S;\nS: X n Y;\nX: x | EMPTY {dynamic};\n'
             'Y: y {dynamic} | EMPTY {dynamic};\n'
             'terminals\nn: "n";\nx: "x";\ny: "y";\nc: ",";\n')


def empty_dynamic_unit():
    """productions with an EMPTY right-hand side marked dynamic: the filter
    is asked with zero sub-results, whatever the depth of the stack"""
    mon = Monitor()
    judge = Judge(PROP, KNOWN)
    st = collections.Counter()
    items = ["n", "xn", "ny", "xny"]
    inputs = [",".join(t) for n in (1, 2, 3, 4)
              for t in itertools.product(items, repeat=n)]
    for kind in ("lr", "glr"):
        rec = Recorder(None)
        gg = grammar_from_string(EMPTY_DYN)
        kw = dict(prefer_shifts=False, prefer_shifts_over_empty=False) \
            if kind == "lr" else {}
        p = build(kind, gg, mon, tag=("ed", kind), ws="", dynamic_filter=rec,
                  **kw)
        plain = build(kind, grammar_from_string(EMPTY_DYN), mon,
                      tag=("ed", kind, "p"), ws="", **kw)
        for s in inputs:
            rec.calls = []
            o = parse(p, s, mon)
            o0 = parse(plain, s, mon)
            st["evaluations"] += 1
            st["nontrivial"] += 1
            probs = discipline(rec.calls, gg)
            if o.kind != "ok" or o0.kind != "ok":
                probs.append(("parse failed", o.brief(), o0.brief()))
            elif kind == "lr" and o.value != o0.value:
                probs.append(("accept-all changed the LR result",))
            elif kind == "glr" and forest_sig(o.value) != forest_sig(o0.value):
                probs.append(("accepting filter changed the forest",))
            asked = sum(1 for c in rec.calls[1:]
                        if c[3] is REDUCE and c[4] is not None
                        and len(c[4].rhs) == 0)
            empties = sum((not it.startswith("x")) + (not it.endswith("y"))
                          for it in s.split(","))
            if not probs and asked < empties:
                probs.append(("EMPTY reductions marked dynamic taken without "
                              "asking the filter", asked))
            if probs:
                judge.deviation("FILTER", f"empty-dynamic/{kind}", EMPTY_DYN, s,
                                "dynamic filter (EMPTY productions): "
                                + str(probs[0][0]),
                                {"problems": [list(map(str, x))
                                              for x in probs[:5]]},
                                {"grammar": EMPTY_DYN, "parser": kind,
                                 "input": s, "filter": "accept",
                                 "options": {"ws": ""}})
    r = judge.result()
    r.update(st)
    r.update(states=len(mon.states), transitions=mon.transitions,
             traces=mon.traces,
             samples=[{"grammar": EMPTY_DYN, "inputs": len(inputs)}])
    return r


def run_unit(u):
    if u.get("empty_dynamic"):
        return empty_dynamic_unit()
    k = u["k"]
    pmarks, tmarks = u["marks"][:k], u["marks"][k:2 * k]
    nmark = u["marks"][2 * k]
    layout = bool(u.get("layout"))
    text = grammar(k, pmarks, tmarks, nmark, layout, bool(u.get("rule_level")))

    def inp(s):
        # with a LAYOUT rule: layout before, between and after the tokens
        return " " + "  ".join(s) + " " if layout else s
    mon = Monitor()
    judge = Judge(PROP, KNOWN)
    st = collections.Counter()
    ops = OPS[:k]
    exprs = ["".join(t) for t in expressions(ops, u["maxops"], depth=0)]
    cfg = f"k{k}/" + "".join("1" if m else "0" for m in u["marks"]) + (
        "/layout-rule" if layout else "") + (
        "/rule-level" if u.get("rule_level") else "")
    gk = text

    def case(kind, s, filt):
        return {"grammar": text, "parser": kind, "input": inp(s), "filter": filt,
                "options": {"ws": ""}}

    plain_glr = build("glr", grammar_from_string(text), mon, tag="pg", ws="")
    # ---- GLR, accept-all and reject-p ----------------------------------
    g = grammar_from_string(text)
    prod_ids = [p.prod_id for p in g.productions if len(p.rhs) == 3]
    for rej in [None] + prod_ids:
        rec = Recorder(rej)
        gg = grammar_from_string(text)
        p = build("glr", gg, mon, tag=("g", rej), ws="", dynamic_filter=rec)
        rejected_marked = rej is not None and gg.productions[rej].dynamic
        for s in exprs:
            rec.calls = []
            o = parse(p, inp(s), mon)
            o0 = parse(plain_glr, inp(s), mon)
            st["evaluations"] += 1
            probs = discipline(rec.calls, gg)
            if o0.kind != "ok":
                continue
            base = forest_sig(o0.value)
            if any(u["marks"]):
                st["nontrivial"] += 1
            if rej is None or not rejected_marked:
                if o.kind != "ok" or forest_sig(o.value) != base:
                    probs.append(("accepting filter changed the forest",
                                  o.brief()))
            else:
                want = sorted(t for t in base[0]
                              if not _uses(t, gg.productions[rej]))
                if int(base[1]) <= 60:
                    if o.kind == "ok":
                        got = forest_sig(o.value)[0]
                    elif o.kind == "syntax":
                        got = []
                    else:
                        got = [o.brief()]
                    if got != want:
                        probs.append(("rejected reduction still in a tree, or "
                                      "an accepted one dropped",
                                      len(got), len(want)))
            if o.kind == "ok" and not probs:
                fv = ForestView(o.value.result)
                if fv.count() <= 20:
                    need = set()
                    for i in range(fv.count()):
                        need |= marked_decisions(o.value[i])
                    miss = need - offered(rec.calls)
                    if miss:
                        probs.append(("marked decision taken without asking "
                                      "the filter", sorted(map(str, miss))))
            if probs:
                judge.deviation("FILTER", cfg + "/glr", gk, s,
                                "dynamic filter (GLR): " + str(probs[0][0]),
                                {"problems": [list(map(str, x)) for x in probs[:5]],
                                 "reject": rej},
                                case("glr", s, f"reject:{rej}"))
    # ---- LR, accept-all ---------------------------------------------------
    rec = Recorder(None)
    gg = grammar_from_string(text)
    try:
        p = build("lr", gg, mon, tag="lr", ws="", prefer_shifts=False,
                  prefer_shifts_over_empty=False, dynamic_filter=rec)
    except BudgetExceeded:
        p = None
    except Exception as e:       # noqa: BLE001
        p = None
        # conflicts that are not marked must stop construction; with every
        # operator production marked construction must succeed
        if all(pmarks):
            judge.deviation("FILTER", cfg + "/lr", gk, "",
                            "Parser with all conflicts marked dynamic does "
                            "not construct", {"type": type(e).__name__},
                            case("lr", "", "accept"))
    if p is not None:
        for s in exprs:
            rec.calls = []
            o = parse(p, inp(s), mon)
            st["evaluations"] += 1
            probs = discipline(rec.calls, gg)
            nops = sum(1 for ch in s if ch in ops)
            if nops >= 2:
                if not (o.kind == "exc" and isinstance(
                        o.exc, DynamicDisambiguationConflict)):
                    probs.append(("two accepted actions did not raise "
                                  "DynamicDisambiguationConflict", o.brief()))
            else:
                want = "n" if nops == 0 else ["n", s[1], "n"]
                if o.kind != "ok" or o.value != want:
                    probs.append(("accept-all changed the LR result", o.brief()))
            if probs:
                judge.deviation("FILTER", cfg + "/lr", gk, s,
                                "dynamic filter (LR): " + str(probs[0][0]),
                                {"problems": [list(map(str, x)) for x in probs[:5]]},
                                case("lr", s, "accept"))
    # ---- LR, reject every reduction of one marked production ---------------
    for rej in prod_ids:
        gg = grammar_from_string(text)
        if not gg.productions[rej].dynamic:
            continue
        rec = Recorder(rej)
        try:
            p = build("lr", gg, mon, tag=("lr", rej), ws="", prefer_shifts=False,
                      prefer_shifts_over_empty=False, dynamic_filter=rec)
        except (Exception, BudgetExceeded):      # noqa: BLE001
            continue
        opname = gg.productions[rej].rhs[1].name
        opchar = [o_ for o_, nme in NAMES.items() if nme == opname][0]
        for s in exprs:
            rec.calls = []
            o = parse(p, inp(s), mon)
            st["evaluations"] += 1
            probs = discipline(rec.calls, gg)
            # whatever happens (a result, SyntaxError, a conflict error, even
            # the IndexError of an emptied action list): the rejected
            # reduction must not be in what is returned
            if o.kind == "ok" and opchar in repr(o.value):
                probs.append(("rejected reduction was taken by the LR parser",
                              repr(o.value)[:80]))
            if probs:
                judge.deviation("FILTER", cfg + "/lr-reject", gk, s,
                                "dynamic filter (LR): " + str(probs[0][0]),
                                {"problems": [list(map(str, x)) for x in probs[:5]],
                                 "reject": rej}, case("lr", s, f"reject:{rej}"))
    # ---- precedence-encoding filter (all marked) ---------------------------
    if all(u["marks"][:2 * k]) and not nmark:
        for wo in weak_orderings(list(ops)):
            for assocs in itertools.product(("left", "right"), repeat=len(wo)):
                table = {}
                for li, (lvl, a) in enumerate(zip(wo, assocs)):
                    for o_ in lvl:
                        table[o_] = (li + 1, a)
                for kind in ("lr", "glr"):
                    gg = grammar_from_string(text)
                    kw = dict(prefer_shifts=False, prefer_shifts_over_empty=False) \
                        if kind == "lr" else {}
                    p = build(kind, gg, mon, tag=("prec", kind, str(table)),
                              ws="", dynamic_filter=prec_filter(table, gg), **kw)
                    for s in exprs:
                        want = parse_expr(list(s), table)
                        o = parse(p, inp(s), mon)
                        st["evaluations"] += 1
                        st["nontrivial"] += 1
                        if kind == "lr":
                            got = o.value if o.kind == "ok" else o.brief()
                        else:
                            if o.kind == "ok" and ForestView(
                                    o.value.result).count() == 1:
                                got = p.call_actions(o.value[0])
                            else:
                                got = o.brief() if o.kind != "ok" else "many"
                        if got != want:
                            judge.deviation(
                                "FILTER", cfg + f"/prec/{kind}", gk, s,
                                "precedence-encoding filter does not give the "
                                "operator-precedence tree",
                                {"got": str(got), "want": str(want),
                                 "table": str(table)},
                                case(kind, s, f"prec:{table}"))
    # ---- sub-result (tree shape) based precedence filter, GLR ------------
    if all(pmarks) and not any(tmarks) and not nmark:
        for wo in weak_orderings(list(ops)):
            for assocs in itertools.product(("left", "right"), repeat=len(wo)):
                table = {}
                for li, (lvl, a) in enumerate(zip(wo, assocs)):
                    for o_ in lvl:
                        table[o_] = (li + 1, a)
                gg = grammar_from_string(text)
                p = build("glr", gg, mon, tag=("shape", str(table)), ws="",
                          dynamic_filter=shape_filter(table))
                for s in exprs:
                    want = parse_expr(list(s), table)
                    o = parse(p, inp(s), mon)
                    st["evaluations"] += 1
                    st["nontrivial"] += 1
                    if o.kind == "ok":
                        n = ForestView(o.value.result).count()
                        got = p.call_actions(o.value[0]) if n == 1 else \
                            f"{n} trees"
                    else:
                        got = o.brief()
                    if got != want:
                        judge.deviation(
                            "FILTER", cfg + "/shape/glr", gk, s,
                            "a filter deciding from the sub-results of each "
                            "reduction does not yield exactly the tree it "
                            "admits (a rejected reduction was taken, or an "
                            "accepted one dropped)",
                            {"got": str(got), "want": str(want),
                             "table": str(table)},
                            case("glr", s, f"shape:{table}"))
    r = judge.result()
    r.update(st)
    r.update(states=len(mon.states), transitions=mon.transitions,
             traces=mon.traces,
             samples=[{"grammar": text, "expressions": len(exprs)}])
    return r


def _uses(tree_str, prod):
    # to_str() shows symbols, not productions: a tree uses the production
    # E: E <op> E iff the operator's terminal appears
    op = prod.rhs[1].name
    return f"{op}[" in tree_str


def evidence(total, tier, seed, complete):
    cov = {
        "states": total.get("states", 0),
        "transitions": total.get("transitions", 0),
        "traces_validated_against_impl": total.get("traces", 0),
        "evaluations": total.get("evaluations", 0),
        "distinct_nontrivial": total.get("nontrivial", 0),
        "rule": "operator grammars with 2-3 operators (named terminals) x "
                "every subset of operator productions and operator terminals "
                "marked dynamic x every expression up to the operator bound x "
                "filters {accept-all recording, reject every reduction of "
                "production p (each p), precedence-encoding for every operator "
                "table (all marked)} x {Parser(prefer_shifts off), GLRParser}: "
                "call discipline, coverage of marked decisions, effect of "
                "accept/reject, precedence tree; non-trivial = run with at "
                "least one mark",
        "samples": total.get("samples", [])[:3],
        "exhaustive": bool(complete),
        "domain": [{k: str(v) for k, v in row.items()}
                   for row in plan(tier, seed)],
    }
    return cov, ["reference: no-filter forest, precedence climbing"]


def replay(rec):
    return False, "see the case in the replay file"
