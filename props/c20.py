"""C20 - a grammar split over imported files means the same as the flattened
grammar (shape A)."""
import collections
import itertools
import os
import re
import shutil
import tempfile

from parglare import Grammar

from pgmc import spaces
from pgmc.drive import (BudgetExceeded, ForestView, Monitor, build,
                        grammar_from_string, install_state_budget, parse, quiet)
from pgmc.findings import Judge, Known
from pgmc.ref.cfg import CharRef

PROP = "C20"
KNOWN = Known(PROP)
FLOOR = {"quick": 500, "thorough": 3000}
SPACE = dict(nts=("S", "A", "B"), ts=("a", "b"), r=2, k=4)
NTS = ("S", "A", "B")
# rule -> file index (S always in the root file 0)
SPLITS = [{"A": 0, "B": 1}, {"A": 1, "B": 0}, {"A": 1, "B": 1},
          {"A": 1, "B": 2}]


def plan(tier, seed):
    if tier == "quick":
        return dict(win=(seed, 400))
    return dict(win=(0, 25))


def base_grammars():
    out = []
    for gi, prods in enumerate(spaces.grammars(**SPACE)):
        if {l for l, _ in prods} == set(NTS):
            out.append(gi)
    return out


def units(tier, seed):
    pl = plan(tier, seed)
    idxs = base_grammars()
    idxs = [g for k, g in enumerate(idxs) if k % pl["win"][1] == pl["win"][0]
            % pl["win"][1]]
    return [dict(special=i) for i in range(len(SPECIAL))] + \
        [dict(idx=idxs[i:i + 10]) for i in range(0, len(idxs), 10)]


def worker_init():
    install_state_budget(600)


def variants(prods):
    """all modular renderings of one base grammar:
    (description, {file name: text}, override production list or None)"""
    by = collections.OrderedDict()
    for l, r in prods:
        by.setdefault(l, []).append(r)
    out = []
    for split in SPLITS:
        where = dict(split, S=0)
        nfiles = max(where.values()) + 1
        # which file references which
        refs = collections.defaultdict(set)
        for l, r in prods:
            for x in r:
                if x in NTS and where[x] != where[l]:
                    refs[where[l]].add(where[x])
        reach = {0}
        st = [0]
        while st:
            f = st.pop()
            for t in refs[f]:
                if t not in reach:
                    reach.add(t)
                    st.append(t)
        if reach != set(range(nfiles)):
            continue        # a file nobody imports: not a split of this grammar
        for alias, tstyle in itertools.product((False, True), ("inline", "shared")):
            orders = [None]
            if len(refs[0]) + (1 if tstyle == "shared" else 0) >= 2:
                orders = [None, "reversed"]
            for order in orders:
                for other_path in (False, True):
                    if other_path and not (nfiles == 3 and 2 in refs[0]
                                           and 2 in refs[1] and 1 in refs[0]):
                        continue
                    files = render(by, where, nfiles, refs, alias, tstyle,
                                   order, other_path)
                    desc = (f"split={sorted(split.items())} alias={int(alias)} "
                            f"terms={tstyle} order={order} other={int(other_path)}")
                    out.append((desc, files, None))
                    if nfiles >= 2 and not other_path:
                        files = render(by, where, nfiles, refs, alias, tstyle,
                                       order, other_path, dotted=True)
                        out.append((desc + " paths=dotted", files, None))
        # override variant: the root replaces A (when A is imported)
        if where["A"] != 0:
            new_rhs = [("a", "a")]
            files = render(by, where, nfiles, refs, False, "inline", None, False,
                           override=("A", new_rhs))
            ov = [(l, r) for l, r in prods if l != "A"] + \
                [("A", r) for r in new_rhs]
            out.append((f"split={sorted(split.items())} override A", files, ov))
            files = render(by, where, nfiles, refs, False, "inline", None, False,
                           override=("A", new_rhs), dotted=True)
            out.append((f"split={sorted(split.items())} override A "
                        "paths=dotted", files, ov))
            # ... and a user on another file refers to it with a repetition
            if where["B"] != where["A"] and any(
                    "A" in r for l, r in prods if l == "B"):
                files = render(by, where, nfiles, refs, False, "inline", None,
                               False, override=("A", new_rhs), plus=True)
                out.append((f"split={sorted(split.items())} override A, "
                            "B uses A+", files, ("plus", ov)))
    return out


def fname(i):
    return ["root", "f1", "f2"][i]


def floc(i, dotted):
    """where a file lives: with dotted paths f1.pg sits in sub/"""
    if i == "t":
        return "t.pg"
    return ("sub/" if dotted and i == 1 else "") + fname(i) + ".pg"


def ipath(src, dst, dotted):
    """spelling of the import path from file src to file dst.  With dotted
    paths the same file is reached under different spellings ('./f2.pg',
    '../f2.pg', 'sub/../f2.pg'), which must not make it a different file."""
    if not dotted:
        return floc(dst, False)
    if src == 1:                       # from sub/f1.pg
        return "../" + floc(dst, True) if dst != 1 else "f1.pg"
    if dst == 1:
        return "./sub/f1.pg" if src == 2 else "sub/f1.pg"
    return ("./" if src == 0 else "sub/../") + floc(dst, True)


def render(by, where, nfiles, refs, alias, tstyle, order, other_path,
           override=None, plus=False, dotted=False):
    files = {}
    al = (lambda i: f"m{i}") if alias else fname
    for f in range(nfiles):
        imps = sorted(refs[f])
        if order == "reversed" and f == 0:
            imps = imps[::-1]
        lines = []
        tl = []
        if tstyle == "shared":
            tl = [f"import '{ipath(f, 't', dotted)}';"]
        il = [f"import '{ipath(f, t, dotted)}'" +
              (f" as {al(t)}" if alias else "") + ";" for t in imps]
        lines += (tl + il) if order != "reversed" else (il + tl)
        for rule in [n for n in NTS if where[n] == f and n in by]:
            alts = []
            for r in by[rule]:
                syms = []
                for x in r:
                    if x in NTS:
                        op = "+" if (plus and rule == "B" and x == "A") else ""
                        if where[x] == f:
                            syms.append(x + op)
                        elif other_path and f == 0 and where[x] == 2:
                            syms.append(f"{al(1)}.{al(2)}.{x}")
                        else:
                            syms.append(f"{al(where[x])}.{x}{op}")
                    else:
                        syms.append(f'"{x}"' if tstyle == "inline" else f"t.{x}")
                alts.append(" ".join(syms) if syms else "EMPTY")
            lines.append(f"{rule}: " + " | ".join(alts) + ";")
        if override and f == 0:
            rule, rhss = override
            # FQN along the first chain of imports (depth first, in the order
            # of the import statements) that leads to the rule's file
            def chain(cur, target, seen):
                for t in sorted(refs[cur]):
                    if t == target:
                        return [t]
                    if t not in seen:
                        sub = chain(t, target, seen | {t})
                        if sub:
                            return [t] + sub
                return None
            path = chain(0, where[rule], {0})
            fq = ".".join(al(t) for t in path) + f".{rule}"
            lines.append(f"{fq}: " + " | ".join(
                " ".join(f'"{x}"' for x in r) for r in rhss) + ";")
        files[floc(f, dotted)] = "\n".join(lines) + "\n"
    if tstyle == "shared":
        files["t.pg"] = 'T: a | b;\nterminals\na: "a";\nb: "b";\n'
    return files


def shape(n, qual=False):
    # an overriding rule is named by the qualified name it overrides
    nm = n.symbol.fqn.replace(".", "_") if qual else \
        n.symbol.name.split(".")[-1]
    if n.is_term():
        return (nm, n.value)
    return (nm, tuple(shape(c, qual) for c in n))


def observe(kind, p, s, mon, qual=False):
    o = parse(p, s, mon)
    if o.kind == "ok":
        if kind == "lr":
            return ("ok", repr(o.value))
        fv = ForestView(o.value.result)
        if fv.cyclic:
            return ("ok", "cyclic")
        n = fv.count()
        if n > 30:
            return ("ok", "many", str(n))
        return ("ok", tuple(sorted((shape(o.value[i], qual) for i in range(n)),
                                   key=repr)))
    if o.kind == "syntax":
        return ("syntax", o.exc.location.start_position)
    return (o.kind,)


# grammar-wide special rules (KEYWORD, LAYOUT) of the root file together with
# rules and string terminals that live only in imported files:
# (name, files, flattened text, input alphabet, longest input)
SPECIAL = [
    ("keyword-root/inline-in-import",
     {"root.pg": "import 'f1.pg';\nS: f1.St+;\nterminals\nKEYWORD: /[a-z]+/;\n",
      "f1.pg": 'St: "ab" id | id;\nterminals\nid: /[a-z]+/;\n'},
     'S: St+;\nSt: "ab" id | id;\nterminals\nKEYWORD: /[a-z]+/;\n'
     'id: /[a-z]+/;\n', "ab ", 6),
    ("keyword-root/declared-in-import",
     {"root.pg": "import 'f1.pg' as m;\nS: m.St+;\nterminals\n"
                 "KEYWORD: /[a-z]+/;\n",
      "f1.pg": 'St: K id | id;\nterminals\nK: "ab";\nid: /[a-z]+/;\n'},
     'S: St+;\nSt: K id | id;\nterminals\nKEYWORD: /[a-z]+/;\nK: "ab";\n'
     'id: /[a-z]+/;\n', "ab ", 6),
    ("keyword-root/two-levels",
     {"root.pg": "import 'f1.pg';\nS: f1.St+;\nterminals\nKEYWORD: /[a-z]+/;\n",
      "f1.pg": "import 'f2.pg';\nSt: f2.Kw id | id;\nterminals\n"
               "id: /[a-z]+/;\n",
      "f2.pg": 'Kw: "ab" | "b";\n'},
     'S: St+;\nSt: Kw id | id;\nKw: "ab" | "b";\nterminals\n'
     'KEYWORD: /[a-z]+/;\nid: /[a-z]+/;\n', "ab ", 6),
    ("keyword-root/also-used-in-root",
     {"root.pg": "import 'f1.pg';\nS: f1.St+ | \"b\" \"ab\";\nterminals\n"
                 "KEYWORD: /[a-z]+/;\n",
      "f1.pg": 'St: "ab" id | id;\nterminals\nid: /[a-z]+/;\n'},
     'S: St+ | "b" "ab";\nSt: "ab" id | id;\nterminals\nKEYWORD: /[a-z]+/;\n'
     'id: /[a-z]+/;\n', "ab ", 6),
    ("layout-root/rules-in-import",
     {"root.pg": "import 'f1.pg';\nS: f1.St+;\nLAYOUT: Sp | EMPTY;\n"
                 "terminals\nSp: /[_ ]+/;\n",
      "f1.pg": 'St: "a" "b" | "b";\n'},
     'S: St+;\nSt: "a" "b" | "b";\nLAYOUT: Sp | EMPTY;\nterminals\n'
     'Sp: /[_ ]+/;\n', "ab_", 6),
    # two modules declare a terminal of the same name; both are expected in
    # the same state and match the same text (GLR pursues both); names are
    # compared fully qualified ('.' written '_' in the flattened text)
    ("same-named-terminals/two-modules",
     {"root.pg": "import 'l.pg';\nimport 'r.pg';\nS: E+;\nE: l.I | r.I;\n",
      "l.pg": "I: W;\nterminals\nW: /[ab]/;\n",
      "r.pg": "I: W | W W;\nterminals\nW: /[ab]/;\n"},
     'S: E+;\nE: l_I | r_I;\nl_I: l_W;\nr_I: r_W | r_W r_W;\nterminals\n'
     'l_W: /[ab]/;\nr_W: /[ab]/;\n', "ab", 4, "qualified"),
    # options of Grammar.from_file reach the imported files as they reach a
    # single file: regular expression flags, ignore_case
    ("re-flags/regex-in-import",
     {"root.pg": "import 'f1.pg';\nS: f1.St+ 'b';\n",
      "f1.pg": "import 'f2.pg';\nSt: id | f2.K;\nterminals\nid: /a+/;\n",
      "f2.pg": "K: k;\nterminals\nk: /c./;\n"},
     "S: St+ 'b';\nSt: id | K;\nK: k;\nterminals\nid: /a+/;\nk: /c./;\n",
     "aAbc\n", 4, {"re_flags": re.IGNORECASE | re.DOTALL | re.MULTILINE}),
    ("ignore-case/strings-and-regex-in-import",
     {"root.pg": "import 'f1.pg';\nS: f1.St+ 'b';\n",
      "f1.pg": "St: id | 'ab';\nterminals\nid: /a+/;\n"},
     "S: St+ 'b';\nSt: id | 'ab';\nterminals\nid: /a+/;\n",
     "aAbB", 4, {"ignore_case": True}),
]


def special_unit(u):
    name, files, ftext, alpha, nmax = SPECIAL[u["special"]][:5]
    qual = "qualified" in SPECIAL[u["special"]][5:]
    gkw = next((x for x in SPECIAL[u["special"]][5:] if isinstance(x, dict)),
               {})
    mon = Monitor()
    judge = Judge(PROP, KNOWN)
    st = collections.Counter()
    inputs = spaces.strings(alpha, nmax)
    case = {"files": files, "flattened": ftext, "variant": name,
            "grammar_options": {k: str(v) for k, v in gkw.items()}}
    d = tempfile.mkdtemp(prefix="pgmc-c20-")
    try:
        for nme, text in files.items():
            open(os.path.join(d, nme), "w").write(text)
        for kind in ("lr", "glr"):
            ps = []
            for src in ("modular", "flat"):
                try:
                    with quiet():
                        g = Grammar.from_file(os.path.join(d, "root.pg"),
                                              **gkw) \
                            if src == "modular" else \
                            grammar_from_string(ftext, **gkw)
                    ps.append(build(kind, g, mon, tag=(name, src, kind)))
                except BudgetExceeded:
                    ps.append("budget")
                except Exception as e:     # noqa: BLE001
                    ps.append(type(e).__name__)
                for f_ in os.listdir(d):
                    if f_.endswith((".pgc", ".tmp")):
                        os.remove(os.path.join(d, f_))
            if any(isinstance(p, str) for p in ps):
                if [p if isinstance(p, str) else "ok" for p in ps][0] != \
                        [p if isinstance(p, str) else "ok" for p in ps][1]:
                    judge.deviation("MODULAR", f"special/build/{kind}", name, "",
                                    "construction outcome differs from the "
                                    "flattened grammar",
                                    {"modular": str(ps[0])[:40],
                                     "flat": str(ps[1])[:40]}, case)
                continue
            for s_ in inputs:
                a = observe(kind, ps[0], s_, mon, qual)
                b = observe(kind, ps[1], s_, mon, qual)
                st["evaluations"] += 1
                if b[0] == "ok":
                    st["nontrivial"] += 1
                if a != b:
                    judge.deviation(
                        "MODULAR", f"special/parse/{kind}", name, s_,
                        "modular grammar and flattened grammar disagree "
                        f"(special family: {name})",
                        {"modular": str(a)[:200], "flat": str(b)[:200]},
                        dict(case, input=s_, parser=kind))
    finally:
        shutil.rmtree(d, ignore_errors=True)
    st["variants"] += 1
    r = judge.result()
    r.update(st)
    r.update(states=len(mon.states), transitions=mon.transitions,
             traces=mon.traces, samples=[{"special": name, "files": files}])
    return r


def run_unit(u):
    if "special" in u:
        return special_unit(u)
    gs = spaces.grammars(**SPACE)
    mon = Monitor()
    judge = Judge(PROP, KNOWN)
    st = collections.Counter()
    inputs = spaces.strings("ab", 4)
    samples = []
    for gi in u["idx"]:
        prods = spaces.ordered_prods(gs[gi], NTS)
        gk = spaces.gkey(prods, NTS)
        flat_cache = {}

        def flat(pl, plus=False):
            key = (tuple(pl), plus)
            if key not in flat_cache:
                text = spaces.render_grammar(pl, NTS, "M0")
                if plus:
                    lines = text.split("\n")
                    for k_, ln in enumerate(lines):
                        if ln.startswith("B:"):
                            lines[k_] = " ".join(
                                (t + "+" if t.rstrip(";") == "A" and
                                 not t.endswith(";") else
                                 ("A+;" if t == "A;" else t))
                                for t in ln.split(" "))
                    text = "\n".join(lines)
                ps = {}
                for kind in ("lr", "glr"):
                    try:
                        ps[kind] = build(kind, grammar_from_string(text), mon,
                                         tag=(gi, "flat", kind), ws="")
                    except BudgetExceeded:
                        ps[kind] = "budget"
                    except Exception as e:     # noqa: BLE001
                        ps[kind] = type(e).__name__
                ref = None if plus else CharRef(
                    spaces.ordered_prods(pl, NTS), "S", spaces.LEXMAPS["M0"],
                    ws="")
                flat_cache[key] = (ps, ref, text)
            return flat_cache[key]

        for desc, files, ov in variants(prods):
            d = tempfile.mkdtemp(prefix="pgmc-c20-")
            try:
                for nme, text in files.items():
                    os.makedirs(os.path.dirname(os.path.join(d, nme)),
                                exist_ok=True)
                    open(os.path.join(d, nme), "w").write(text)
                plus = isinstance(ov, tuple) and ov and ov[0] == "plus"
                if plus:
                    ov = ov[1]
                fps, ref, ftext = flat(ov if ov is not None else prods, plus)
                case = {"files": files, "flattened": ftext, "variant": desc}
                try:
                    with quiet():
                        g = Grammar.from_file(os.path.join(d, "root.pg"))
                except Exception as e:         # noqa: BLE001
                    judge.deviation("MODULAR", "load", gk, desc,
                                    "modular grammar does not load",
                                    {"type": type(e).__name__,
                                     "m": str(e)[:120]}, case)
                    continue
                st["variants"] += 1
                # each rule once, however many paths lead to its file
                names = collections.Counter(
                    n.name for n in g.nonterminals.values())
                dup = {n: c for n, c in names.items() if n in NTS and c > 1}
                if dup and ov is None:
                    judge.deviation("MODULAR", "once", gk, desc,
                                    "a rule of an imported file occurs more "
                                    "than once", {"dup": dup}, case)
                for kind in ("lr", "glr"):
                    fp = fps[kind]
                    try:
                        with quiet():
                            g2 = Grammar.from_file(os.path.join(d, "root.pg"))
                        p = build(kind, g2, mon, tag=(gi, desc, kind), ws="")
                    except BudgetExceeded:
                        p = "budget"
                    except Exception as e:     # noqa: BLE001
                        p = type(e).__name__
                    for f_ in os.listdir(d):
                        if f_.endswith((".pgc", ".tmp")):
                            os.remove(os.path.join(d, f_))
                    if isinstance(p, str) or isinstance(fp, str):
                        if (p if isinstance(p, str) else "ok") != \
                                (fp if isinstance(fp, str) else "ok"):
                            judge.deviation("MODULAR", f"build/{kind}", gk, desc,
                                            "construction outcome differs from "
                                            "the flattened grammar",
                                            {"modular": str(p)[:40],
                                             "flat": str(fp)[:40]}, case)
                        continue
                    for s in inputs:
                        a = observe(kind, p, s, mon)
                        b = observe(kind, fp, s, mon)
                        st["evaluations"] += 1
                        if b[0] == "ok":
                            st["nontrivial"] += 1
                        if a != b:
                            judge.deviation(
                                "MODULAR", f"parse/{kind}", gk, f"{desc}|{s}",
                                "modular grammar and flattened grammar "
                                "disagree", {"modular": str(a)[:200],
                                             "flat": str(b)[:200]},
                                dict(case, input=s, parser=kind))
                        if kind == "glr" and a[0] != "budget" and ref is not None:
                            sent = ref.analyse(s).sentence
                            if sent != (a[0] == "ok"):
                                # GLR's own known defects are C01's subject;
                                # only report if the flat parser is right
                                if (b[0] == "ok") == sent:
                                    judge.deviation(
                                        "MODULAR", "language", gk, f"{desc}|{s}",
                                        "language differs from the chart of "
                                        "the flattened grammar",
                                        {"accepted": a[0], "sentence": sent},
                                        dict(case, input=s, parser=kind))
            finally:
                shutil.rmtree(d, ignore_errors=True)
        if not samples:
            vs = variants(prods)
            samples.append({"grammar": gk, "variants": len(vs),
                            "example_files": vs[-1][1] if vs else {}})
    r = judge.result()
    r.update(st)
    r.update(states=len(mon.states), transitions=mon.transitions,
             traces=mon.traces, samples=samples)
    return r


def evidence(total, tier, seed, complete):
    cov = {
        "states": total.get("states", 0),
        "transitions": total.get("transitions", 0),
        "traces_validated_against_impl": total.get("traces", 0),
        "evaluations": total.get("evaluations", 0),
        "distinct_nontrivial": total.get("nontrivial", 0),
        "rule": "base grammars over three nonterminals (each with a rule) x "
                "every assignment of the rules to 2-3 files (import graph "
                "induced by the references: chain, fan-out, diamond, mutual "
                "import) x alias on/off x terminals inline / declared in a "
                "shared imported file x import statement order x reference "
                "along the other diamond path x override of an imported rule "
                "from the root; real files in a scratch directory; every "
                "input <= 4: construction outcome, LR results, GLR tree sets "
                "(by symbol names) equal those of the flattened single-file "
                "grammar, language equals the chart, each imported rule "
                "occurs once; non-trivial = accepted input",
        "samples": total.get("samples", [])[:2],
        "exhaustive": bool(complete),
        "domain": {k: str(v) for k, v in plan(tier, seed).items()},
        "modular_variants": total.get("variants", 0),
    }
    return cov, ["the base-grammar space is a fully enumerated residue class "
                 "of G({S,A,B},{a,b},2,4) (reported as a window, not as the "
                 "whole space)"]


def replay(rec):
    return False, "files are in the replay record"
