"""C09 - all ways of running semantic actions give the same result
(shape A)."""
import collections
import re
import itertools

from pgmc import spaces
from pgmc.drive import (BudgetExceeded, ForestView, Monitor, build,
                        grammar_from_string, install_state_budget, parse,
                        tree_canon)
from pgmc.findings import Judge, Known

PROP = "C09"
KNOWN = Known(PROP)
FLOOR = {"quick": 1000, "thorough": 5000}
SPACES = {
    "k2": dict(nts=("S", "A"), ts=("a", "b"), r=2, k=2),
    "k3": dict(nts=("S", "A"), ts=("a", "b"), r=2, k=3),
    "k4only": dict(nts=("S", "A"), ts=("a", "b"), r=2, k=4, kmin=4),
}


def plan(tier, seed):
    if tier == "quick":
        return [dict(space="k2"), dict(space="k3", win=(seed, 12)),
                dict(space="sugar")]
    return [dict(space="k2"), dict(space="k3"),
            dict(space="k4only", win=(0, 40)), dict(space="sugar")]


def units(tier, seed):
    out = []
    for row in plan(tier, seed):
        if row["space"] == "sugar":
            out.append(dict(space="sugar"))
            continue
        n = len(spaces.grammars(**SPACES[row["space"]]))
        win = row.get("win")
        idxs = list(range(n)) if win is None else list(
            spaces.window(n, win[0], win[1]))
        for i in range(0, len(idxs), 6):
            out.append(dict(space=row["space"], idx=idxs[i:i + 6]))
    return out


def worker_init():
    install_state_budget(600)


def decorations(prods):
    """named-match placements: list of dict {(prod index, pos): (name, op)}"""
    slots = [(pi, j) for pi, (_, r) in enumerate(prods) for j in range(len(r))]
    out = [{}]
    for s in slots:
        for op in ("=", "?="):
            out.append({s: ("n0", op)})
    for s1, s2 in itertools.combinations(slots, 2):
        if s1[0] == s2[0]:                       # two names in one production
            out.append({s1: ("n0", "="), s2: ("n1", "=")})
            out.append({s1: ("n0", "="), s2: ("n1", "?=")})
        elif prods[s1[0]][0] == prods[s2[0]][0]:
            # same name in two alternatives of one rule, other position
            out.append({s1: ("n0", "="), s2: ("n0", "=")})
    return out


def render(prods, nts, deco):
    by = {}
    for pi, (l, r) in enumerate(prods):
        parts = []
        for j, x in enumerate(r):
            d = deco.get((pi, j))
            parts.append(f"{d[0]}{d[1]}{x}" if d else x)
        by.setdefault(l, []).append(" ".join(parts) if parts else "EMPTY")
    lines = [f"{l}: " + " | ".join(by[l]) + ";" for l in nts if l in by]
    used = sorted({x for _, r in prods for x in r if x in ("a", "b")})
    if used:
        lines.append("terminals")
        lines += [f'{t}: "{t}";' for t in used]
    return "\n".join(lines) + "\n"


def split_order(prods, nts):
    """the same grammar with every rule defined in two parts - its first
    alternative, then (after the other rules) the remaining ones; parglare
    merges multiple definitions of a rule.  Returns (productions in the new
    text order, old index -> new index) or None if nothing can be split."""
    first, rest = [], []
    seen = set()
    for pi, (l, r) in enumerate(prods):
        (rest if l in seen else first).append(pi)
        seen.add(l)
    if not rest or len({prods[pi][0] for pi in first}) < 2:
        return None
    order = first + rest
    return [prods[pi] for pi in order], {old: new for new, old in enumerate(order)}


def render_split(prods, nts, deco):
    """text with one definition per production run: rules are NOT grouped"""
    lines = []
    prev = None
    for pi, (l, r) in enumerate(prods):
        parts = []
        for j, x in enumerate(r):
            d = deco.get((pi, j))
            parts.append(f"{d[0]}{d[1]}{x}" if d else x)
        body = " ".join(parts) if parts else "EMPTY"
        if l == prev:
            lines[-1] = lines[-1][:-1] + " | " + body + ";"
        else:
            lines.append(f"{l}: {body};")
        prev = l
    used = sorted({x for _, r in prods for x in r if x in ("a", "b")})
    if used:
        lines.append("terminals")
        lines += [f'{t}: "{t}";' for t in used]
    return "\n".join(lines) + "\n"


def make_actions(prods, nts, style):
    """style: 'rule' one recording action per rule, 'list' one per
    alternative, 'none'"""
    if style == "none":
        return None
    acts = {}
    alts = collections.Counter(l for l, _ in prods)

    def rule_act(rule):
        def act(ctx, nodes, **kw):
            return ("R", rule, ctx.production.prod_symbol_id, tuple(nodes),
                    tuple(sorted(kw.items())))
        return act

    def alt_act(rule, i):
        def act(ctx, nodes, **kw):
            return ("R", rule, i, tuple(nodes), tuple(sorted(kw.items())))
        return act
    for rule in alts:
        if style == "rule":
            acts[rule] = rule_act(rule)
        else:
            acts[rule] = [alt_act(rule, i) for i in range(alts[rule])]
    return acts


def norm(x):
    if isinstance(x, (list, tuple)):
        return tuple(norm(y) for y in x)
    if hasattr(x, "_pg_start_position"):
        return ("OBJ", type(x).__name__,
                tuple(sorted((k, norm(getattr(x, k)))
                             for k in x._pg_children_names)))
    return x


def reference(tree, prods, deco, style):
    """what the actions must compute, from the canonical derivation tree"""
    first = {}
    for pi, (l, _) in enumerate(prods):
        first.setdefault(l, pi)

    def ev(t):
        if isinstance(t[0], str):
            return t[2 + 1] if False else t[0]     # terminal: its value
        pi, kids = t
        rule, rhs = prods[pi]
        subs = tuple(ev(k) for k in kids)
        kw = {}
        for j in range(len(rhs)):
            d = deco.get((pi, j))
            if d:
                kw[d[0]] = subs[j] if d[1] == "=" else bool(subs[j])
        has_named = any(p == pi_ for (pi_, _) in deco
                        for p in [pi_] if prods[p][0] == rule)
        if style == "none" or (style == "partial" and rule != prods[0][0]):
            if has_named:
                # default `obj` action: an object of the rule's class with
                # the named matches of this alternative
                return ("OBJ", rule, tuple(sorted(kw.items())))
            return subs[0] if len(subs) == 1 else subs
        # alternative index = position among the rule's alternatives in
        # text order (a rule may be defined in several parts)
        alt = sum(1 for q in range(pi) if prods[q][0] == rule)
        return ("R", rule, alt, subs, tuple(sorted(kw.items())))
    return ev(tree)


def leaf_values(tree):
    """canonical tree -> terminals as values (M0: value == name)"""
    return tree


def accept_all(context, from_state, to_state, action, production, subresults):
    return None if action is None else True


def run_unit(u):
    if u["space"] == "sugar":
        return sugar_unit()
    sp = SPACES[u["space"]]
    nts = sp["nts"]
    gs = spaces.grammars(**sp)
    mon = Monitor()
    judge = Judge(PROP, KNOWN)
    st = collections.Counter()
    inputs = spaces.strings("ab", 4)
    samples = []
    for gi in u["idx"]:
        prods = spaces.ordered_prods(gs[gi], nts)
        gk = spaces.gkey(prods, nts)
        variants = [(prods, deco, render(prods, nts, deco), ("rule", "list", "none"))
                    for deco in decorations(prods)]
        sp_ = split_order(prods, nts)
        if sp_ is not None:
            sprods, remap = sp_
            # without named matches: a rule whose parts carry different
            # (implicit obj) actions is rejected by the grammar language
            variants.append((sprods, {}, render_split(sprods, nts, {}),
                             ("list", "rule")))
        for vprods, deco, text, styles in variants:
            for style in styles:
                cfg = f"{style}"
                acts = lambda: make_actions(vprods, nts, style)   # noqa: E731
                try:
                    p1 = build("lr", grammar_from_string(text), mon,
                               tag=(gi, 1), actions=acts(), ws="")
                    p2 = build("lr", grammar_from_string(text), mon,
                               tag=(gi, 2), actions=acts(), build_tree=True,
                               ws="")
                    p3 = build("glr", grammar_from_string(text), mon,
                               tag=(gi, 3), actions=acts(), ws="")
                    # the tree route once more on a parser that carries an
                    # accept-all dynamic filter (the filter machinery writes
                    # to the parse contexts the tree nodes are made from)
                    p2f = build("lr", grammar_from_string(text), mon,
                                tag=(gi, 4), actions=acts(), build_tree=True,
                                ws="", dynamic_filter=accept_all)
                except (Exception, BudgetExceeded) as e:   # noqa: BLE001
                    st["no_parser"] += 1
                    if not isinstance(e, Exception) or \
                            "onflict" not in type(e).__name__:
                        judge.deviation(None, cfg, text, "",
                                        "construction failed unexpectedly",
                                        {"type": type(e).__name__,
                                         "m": str(e)[:100]}, {"grammar": text})
                    break
                st["parser_triples"] += 1
                # a second action table on a Grammar object that was used
                # with another one before: actions are resolved onto the
                # grammar's symbols at every construction, and a rule the
                # new table does not name falls back to its default
                pp = None
                if style == "rule" and not deco and \
                        len({l for l, _ in vprods}) > 1:
                    try:
                        gsh = grammar_from_string(text)
                        build("lr", gsh, mon, tag=(gi, 5), actions=acts(), ws="")
                        top = vprods[0][0]
                        pp = build("lr", gsh, mon, tag=(gi, 6), ws="",
                                   actions={top: acts()[top]})
                    except (Exception, BudgetExceeded):   # noqa: BLE001
                        pp = None
                for s in inputs:
                    o1 = parse(p1, s, mon)
                    if o1.kind != "ok":
                        continue
                    st["evaluations"] += 1
                    case = {"grammar": text, "parser": "lr", "input": s,
                            "options": {"ws": ""}, "actions": style}
                    r1 = norm(o1.value)
                    o2 = parse(p2, s, mon)
                    probs = []
                    if o2.kind != "ok":
                        probs.append(("tree-building parser fails", o2.brief()))
                        r2 = None
                    else:
                        t = tree_canon(o2.value)
                        want = reference(t, vprods, deco, style)
                        r2 = norm(p2.call_actions(o2.value))
                        if r1 != want:
                            probs.append(("on-the-fly result != reference",
                                          str(r1), str(want)))
                        if r2 != r1:
                            probs.append(("call_actions(tree) != on-the-fly",
                                          str(r2), str(r1)))
                    if pp is not None and o2.kind == "ok":
                        o5 = parse(pp, s, mon)
                        want5 = reference(t, vprods, deco, "partial")
                        r5 = norm(o5.value) if o5.kind == "ok" else o5.brief()
                        if r5 != want5:
                            probs.append(("second action table on a used "
                                          "Grammar object: result != reference",
                                          str(r5), str(want5)))
                    o2f = parse(p2f, s, mon)
                    if o2f.kind != "ok":
                        probs.append(("tree-building parser with an accept-"
                                      "all filter fails", o2f.brief()))
                    else:
                        try:
                            r2f = norm(p2f.call_actions(o2f.value))
                        except Exception as e:     # noqa: BLE001
                            r2f = ("raised", type(e).__name__, str(e)[:80])
                        if r2f != r1:
                            probs.append(("call_actions(tree) with an accept-"
                                          "all dynamic filter != on-the-fly",
                                          str(r2f), str(r1)))
                    o3 = parse(p3, s, mon)
                    if o3.kind == "ok" and o2.kind == "ok":
                        fv = ForestView(o3.value.result)
                        if not fv.cyclic and fv.count() == 1:
                            st["glr_single"] += 1
                            f = o3.value
                            for nm, tr in (("forest[0]", f[0]),
                                           ("get_nonlazy_tree(0)",
                                            f.get_nonlazy_tree(0)),
                                           ("get_first_tree()",
                                            f.get_first_tree())):
                                try:
                                    r3 = norm(p3.call_actions(tr))
                                except Exception as e:     # noqa: BLE001
                                    r3 = ("raised", type(e).__name__, str(e)[:80])
                                if tree_canon(f[0]) == t and r3 != r1:
                                    probs.append((f"GLR call_actions on {nm} "
                                                  "differs", str(r3), str(r1)))
                    if deco or style != "none":
                        st["nontrivial"] += 1
                    if probs:
                        kinds = sorted({p_[0] for p_ in probs})
                        judge.deviation("ACTIONS", cfg, text, s,
                                        "routes of running actions disagree: "
                                        + ", ".join(kinds),
                                        {"problems": probs[:4]}, case)
        if not samples:
            samples.append({"grammar": gk,
                            "decorations": len(decorations(prods)),
                            "action_styles": 3, "inputs": len(inputs)})
    r = judge.result()
    r.update(st)
    r.update(states=len(mon.states), transitions=mon.transitions,
             traces=mon.traces, samples=samples)
    return r


SUGAR = [
    ('S: a+;', {"a": [["a"]], "aaa": [["a", "a", "a"]]}),
    ('S: a*;', {"": [[]], "aa": [["a", "a"]]}),
    ('S: a? b;', {"b": [[None, "b"]], "ab": [["a", "b"]]}),
    ('S: a+[c];', {"a": [["a"]], "aca": [["a", "a"]], "acaca": [["a", "a", "a"]]}),
    ('S: a*[c] b;', {"b": [[[], "b"]], "acab": [[["a", "a"], "b"]]}),
    ('S: x=a+ y=b?;', None),
    ('S: x=a* y?=b;', None),
    ('S: x?=a* b;', None),
    ('S: A+; A: a b?;', None),
    ('S: (a b)+ (b | a)?;', None),
]


SUGAR_ACT = ['S: d+[c];', 'S: d*[c] z;', 'S: d+;', 'S: d* z;', 'S: d? z;',
             'S: x=d+[c] y=d?;', 'S: (d c)* d;']


def doc_value(n, term_action):
    """documented meaning of the built-in actions, from the parse tree; the
    user's terminal action supplies the element values (falsy ones too)"""
    if n.is_term():
        return term_action.get(n.symbol.name, lambda v: v)(n.value)
    kids = [doc_value(c, term_action) for c in n]
    an = n.symbol.action_name
    if an in ("collect", "collect_sep"):
        return [kids[0]] if len(kids) == 1 else list(kids[0]) + [kids[-1]]
    if an == "optional":
        return kids[0] if kids else None
    if an == "obj":
        attrs = {}
        for a in n.production.assignments.values():
            attrs[a.name] = kids[a.index] if a.op == "=" else bool(kids[a.index])
        return ("OBJ", n.symbol.name, tuple(sorted(
            (k, norm(v)) for k, v in attrs.items())))
    return kids[0] if len(kids) == 1 else kids


def sugar_values_part(mon, judge, st):
    """built-in actions with user terminal actions that return falsy values
    (0): every route against the documented flat list"""
    terms = 'terminals\nd: /[0-9]/;\nc: ",";\nz: "z";\n'
    inputs = spaces.strings("01,z", 5)
    tact = {"d": int}
    for body in SUGAR_ACT:
        used = "".join(t for t in "dcz" if t in body.replace("S:", ""))
        text = body + "\nterminals\n" + "".join(
            {"d": "d: /[0-9]/;\n", "c": 'c: ",";\n', "z": 'z: "z";\n'}[t]
            for t in used)
        acts = lambda: {"d": lambda _, v: int(v)}     # noqa: E731
        try:
            p1 = build("lr", grammar_from_string(text), mon, tag=(body, "v1"),
                       ws="", actions=acts())
            p2 = build("lr", grammar_from_string(text), mon, tag=(body, "v2"),
                       ws="", actions=acts(), build_tree=True)
            p3 = build("glr", grammar_from_string(text), mon, tag=(body, "v3"),
                       ws="", actions=acts())
        except (Exception, BudgetExceeded):     # noqa: BLE001
            continue
        for s in inputs:
            o2 = parse(p2, s, mon)
            if o2.kind != "ok":
                continue
            want = norm(doc_value(o2.value, tact))
            st["evaluations"] += 1
            st["nontrivial"] += 1
            got = {"on-the-fly": parse(p1, s, mon),
                   "call_actions(tree)": None, "glr": None}
            res = {"on-the-fly": norm(got["on-the-fly"].value)
                   if got["on-the-fly"].kind == "ok" else got["on-the-fly"].kind,
                   "call_actions(tree)": norm(p2.call_actions(o2.value))}
            o3 = parse(p3, s, mon)
            if o3.kind == "ok":
                fv = ForestView(o3.value.result)
                if not fv.cyclic and fv.count() == 1:
                    res["glr"] = norm(p3.call_actions(o3.value[0]))
            bad = {k: str(v) for k, v in res.items() if v != want}
            if bad:
                judge.deviation("ACTIONS", "sugar-values", text, s,
                                "built-in actions do not return the documented "
                                "flat list / value", {"want": str(want),
                                                      "got": bad},
                                {"grammar": text, "parser": "lr", "input": s,
                                 "options": {"ws": ""},
                                 "actions": "d -> int(value)"})


# rules carrying an action decorator in the grammar text and containing
# groups / repetitions: the decorator names the action of THAT rule only; the
# generated helper rules keep their documented built-in behaviour
DECO_BODIES = [
    '{D} S: a (b c)+;',
    '{D} S: (a b)+ (b | a)?;',
    '{D} S: (a | b c)* c;',
    '{D} S: a (b (c a)?)* c;',
    'S: A+ c; {D} A: a (b c)?;',
    '{D} S: A* c; A: (a b) | b;',
    '{D} S: a+[c] (b)? ;',
    '{D} S: a (b c);',
]
DECOS = ["@act", "@pass_nochange", "@pass_single", "@pass_inner", "@pass_none"]
_HELPER = re.compile(r"_(g\d+|opt|[01](_\w+)?)$")


def deco_value(n, decorated, deco):
    """documented value of a tree: user terminals give their text; a rule
    written by the user gives its decorator's result or, undecorated, the
    default; helper rules (documented names x_1, x_0, x_opt, x_1_sep, R_gN)
    give the flat list / [] / value-or-None / the group's default"""
    if n.is_term():
        return n.value
    kids = [deco_value(c, decorated, deco) for c in n]
    name = n.symbol.name
    m = _HELPER.search(name)
    if name in decorated:
        if deco == "@act":
            return ("ACT", name, tuple(kids))
        if deco == "@pass_nochange":
            return kids
        if deco == "@pass_single":
            return kids[0]
        if deco == "@pass_none":
            return None
        inner = kids[1:-1]
        return inner[0] if len(inner) == 1 else inner
    if m and m.group(1) == "opt":
        return kids[0] if kids else None
    if m and m.group(1)[0] == "1":
        return [kids[0]] if len(kids) == 1 else list(kids[0]) + [kids[-1]]
    if m and m.group(1)[0] == "0":
        return kids[0] if kids else []
    return kids[0] if len(kids) == 1 else kids


def deco_sugar_part(mon, judge, st):
    inputs = spaces.strings("abc", 6)
    for body in DECO_BODIES:
        for deco in DECOS:
            text = body.replace("{D}", deco) + \
                '\nterminals\na: "a";\nb: "b";\nc: "c";\n'
            decorated = set(re.findall(r"@\w+ (\w+):", text))
            acts = lambda: {"act": lambda ctx, nodes: (      # noqa: E731
                "ACT", ctx.symbol.name, tuple(nodes))}
            try:
                p1 = build("lr", grammar_from_string(text), mon,
                           tag=(body, deco, 1), ws="", actions=acts())
                p2 = build("lr", grammar_from_string(text), mon,
                           tag=(body, deco, 2), ws="", actions=acts(),
                           build_tree=True)
                p3 = build("glr", grammar_from_string(text), mon,
                           tag=(body, deco, 3), ws="", actions=acts())
            except (Exception, BudgetExceeded) as e:     # noqa: BLE001
                judge.deviation(None, "deco-sugar", text, "",
                                "construction failed",
                                {"type": type(e).__name__, "m": str(e)[:100]},
                                {"grammar": text})
                continue
            for s in inputs:
                o2 = parse(p2, s, mon)
                if o2.kind != "ok":
                    continue
                st["evaluations"] += 1
                st["nontrivial"] += 1
                st["deco_sugar_cases"] += 1
                try:
                    want = norm(deco_value(o2.value, decorated, deco))
                except IndexError:
                    continue          # pass_single on an empty alternative
                res = {}
                o1 = parse(p1, s, mon)
                res["on-the-fly"] = norm(o1.value) if o1.kind == "ok" else o1.kind
                res["call_actions(tree)"] = norm(p2.call_actions(o2.value))
                o3 = parse(p3, s, mon)
                if o3.kind == "ok":
                    fv = ForestView(o3.value.result)
                    if not fv.cyclic and fv.count() == 1:
                        res["glr"] = norm(p3.call_actions(o3.value[0]))
                bad = {k: str(v) for k, v in res.items() if v != want}
                if bad:
                    judge.deviation("ACTIONS", "deco-sugar", text, s,
                                    "a rule's action decorator / the helper "
                                    "rules' built-in actions do not give the "
                                    "documented value",
                                    {"want": str(want), "got": bad},
                                    {"grammar": text, "parser": "lr",
                                     "input": s, "options": {"ws": ""},
                                     "actions": "act -> ('ACT', rule, nodes)"})


def sugar_unit():
    """repetition sugar with the built-in actions: routes agree and the
    documented values come out"""
    mon = Monitor()
    judge = Judge(PROP, KNOWN)
    st = collections.Counter()
    inputs = spaces.strings("abc", 5)
    terms = 'terminals\na: "a";\nb: "b";\nc: "c";\n'
    for body, expect in SUGAR:
        used = [t for t in "abc" if t in body.replace("S", "").replace("A", "")]
        text = body + "\nterminals\n" + "".join(f'{t}: "{t}";\n' for t in used)
        try:
            p1 = build("lr", grammar_from_string(text), mon, tag=(body, 1), ws="")
            p2 = build("lr", grammar_from_string(text), mon, tag=(body, 2),
                       build_tree=True, ws="")
            p3 = build("glr", grammar_from_string(text), mon, tag=(body, 3),
                       ws="")
        except (Exception, BudgetExceeded) as e:    # noqa: BLE001
            judge.deviation(None, "sugar", text, "", "construction failed",
                            {"type": type(e).__name__, "m": str(e)[:100]},
                            {"grammar": text})
            continue
        for s in inputs:
            o1 = parse(p1, s, mon)
            if o1.kind != "ok":
                continue
            st["evaluations"] += 1
            st["nontrivial"] += 1
            r1 = norm(o1.value)
            probs = []
            o2 = parse(p2, s, mon)
            if o2.kind != "ok" or norm(p2.call_actions(o2.value)) != r1:
                probs.append(("call_actions(tree) != on-the-fly",))
            o3 = parse(p3, s, mon)
            if o3.kind == "ok":
                fv = ForestView(o3.value.result)
                if not fv.cyclic and fv.count() == 1:
                    f = o3.value
                    for tr in (f[0], f.get_nonlazy_tree(0), f.get_first_tree()):
                        if norm(p3.call_actions(tr)) != r1:
                            probs.append(("GLR call_actions differs",))
            if expect and s in expect and r1 != norm(expect[s][0]):
                probs.append(("documented value", str(r1), str(expect[s][0])))
            if probs:
                judge.deviation("ACTIONS", "sugar", text, s,
                                "built-in actions: " + str(probs[0][0]),
                                {"problems": probs[:4]},
                                {"grammar": text, "parser": "lr", "input": s,
                                 "options": {"ws": ""}})
    sugar_values_part(mon, judge, st)
    deco_sugar_part(mon, judge, st)
    r = judge.result()
    r.update(st)
    r.update(states=len(mon.states), transitions=mon.transitions,
             traces=mon.traces,
             samples=[{"family": "repetition sugar", "grammars": len(SUGAR)
                       + len(SUGAR_ACT)}])
    return r


def evidence(total, tier, seed, complete):
    cov = {
        "states": total.get("states", 0),
        "transitions": total.get("transitions", 0),
        "traces_validated_against_impl": total.get("traces", 0),
        "evaluations": total.get("evaluations", 0),
        "distinct_nontrivial": total.get("nontrivial", 0),
        "rule": "every grammar the LR parser constructs for x every placement "
                "of one or two named matches (=, ?=; same production, or same "
                "name in two alternatives) x action style {per rule, list per "
                "alternative, none} x every accepted input <= 4: on-the-fly "
                "result == reference evaluator over the derivation tree == "
                "call_actions(tree) == GLR call_actions on forest[0] / "
                "get_nonlazy_tree(0) / get_first_tree() when the forest has "
                "one tree; plus repetition-sugar grammars with built-in "
                "actions; non-trivial = decorated or with user actions",
        "samples": total.get("samples", [])[:4],
        "exhaustive": bool(complete),
        "domain": [{k: str(v) for k, v in row.items()}
                   for row in plan(tier, seed)],
        "parser_triples": total.get("parser_triples", 0),
        "glr_single_tree_cases": total.get("glr_single", 0),
    }
    return cov, ["reference evaluator: alternative index = position in the "
                 "rule, sub-results in rhs order, name= -> sub-result, "
                 "name?= -> bool(sub-result)"]


def replay(rec):
    return False, "run the stand-alone script stored in the replay file"
