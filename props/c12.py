"""C12 - the table cache is transparent whatever its age, origin or
completeness (shapes C + D: history BFS on the real code, every crash point of
the cache write)."""
import collections
import contextlib
import hashlib
import io
import os
import shutil
import tempfile

import parglare
from parglare import GLRParser, Grammar, Parser

from pgmc import spaces
from pgmc.drive import BudgetExceeded, ForestView, install_state_budget, quiet
from pgmc.findings import Judge, Known, digest
from pgmc.fsfault import Crash, FaultFS, crash_points

PROP = "C12"
KNOWN = Known(PROP)
FLOOR = {"quick": 100, "thorough": 500}
UNIT_TIMEOUT = 1800

# grammar sets: (root variants, imported variants, probe alphabet)
GSETS = [
    dict(files={"g.pg": ["import 'b.pg';\nE: E '+' E | E '*' E | b.N;\n",
                         "import 'b.pg';\nE: E '+' E | b.N;\n"],
                "b.pg": ["N: 'n';\n", "N: 'n' | 'm';\n"]}, alpha="nm+*"),
    dict(files={"g.pg": ["import 'b.pg';\nS: b.A S | EMPTY;\n",
                         "import 'b.pg';\nS: S b.A | b.A;\n"],
                "b.pg": ["A: 'a' | 'b';\n", "A: 'a';\n"]}, alpha="ab"),
    # three-level import chain: root -> b -> c
    dict(files={"g.pg": ["import 'b.pg';\nS: b.M S | b.M;\n"],
                "b.pg": ["import 'c.pg';\nM: 'm' c.L | c.L;\n"],
                "c.pg": ["L: 'a';\n", "L: 'a' | 'b';\n"]}, alpha="mab"),
    # lexical overlap: the finish flags stored in the table matter
    dict(files={"g.pg": ["import 'b.pg';\nS: 'if' ';' | b.Name ';';\n",
                         "import 'b.pg';\nS: 'if' ';' | b.Name ';' | ';';\n"],
                "b.pg": ["Name: id;\nterminals\nid: /[a-z]+/;\n"]},
         alpha="if;y", extra_probes=["iffy;", "if;", "ify;"]),
    # custom error hints: g.pge is compiled into g.pgec (keyed by LR state)
    dict(files={"g.pg": ["import 'b.pg';\nE: E '+' E {left} | b.N;\n",
                         "import 'b.pg';\nE: E '+' E {left} | '(' E ')' | b.N;\n"],
                "b.pg": ["N: 'n';\n", "N: 'n' | 'm' | N '!';\n"],
                "g.pge": ["n +\n:::\noperand expected\n\n=====\nn n\n:::+\n"
                          "operator expected\n",
                          "n +\n:::\nOPERAND\n"]},
         alpha="n+m(", extra_probes=["n+n+", "n+(n", "n!+", "m m"]),
    # a LAYOUT rule: the parser builds a second table (for the layout
    # sub-parser) that is never cached
    dict(files={"g.pg": ["import 'b.pg';\nS: b.A S | b.A;\n"
                         "LAYOUT: LI | LAYOUT LI | EMPTY;\nLI: WS | CM;\n"
                         "terminals\nWS: /\\s+/;\nCM: /#[ab]*#/;\n",
                         "import 'b.pg';\nS: S b.A | b.A | S ';';\n"
                         "LAYOUT: LI | LAYOUT LI | EMPTY;\nLI: WS | CM;\n"
                         "terminals\nWS: /\\s+/;\nCM: /#[ab]*#/;\n"],
                "b.pg": ["A: 'a' | 'b' | 'é' | '日本';\n", "A: 'a';\n"]},
         alpha="ab #", extra_probes=["a #b# a", " a  b", "a#", "a ## b #"]),
]
OPTS = {
    "LR": ("lr", {}),
    "LRnp": ("lr", dict(prefer_shifts=False, prefer_shifts_over_empty=False)),
    "SLR": ("lr", dict(tables="SLR")),
    "GLR": ("glr", {}),
    "GLRps": ("glr", dict(prefer_shifts=True)),
    "GLRld": ("glr", dict(lexical_disambiguation=True)),
    "pglr": ("pglr", dict(prefer_shifts=False, prefer_shifts_over_empty=False)),
    "pglrps": ("pglr", dict(prefer_shifts=True, prefer_shifts_over_empty=False)),
}
# what ends up in the written table, per option
TABLE_KEY = {
    "LR": ("LALR", True, True, True), "LRnp": ("LALR", False, False, True),
    "SLR": ("SLR", True, True, True), "GLR": ("LALR", False, False, False),
    "GLRps": ("LALR", True, False, False), "GLRld": ("LALR", False, False, True),
    "pglr": ("LALR", False, False, True), "pglrps": ("LALR", True, False, True),
}
BUILDERS = ["LR", "LRnp", "SLR", "GLR", "GLRps", "GLRld"]


def probes(alpha):
    for gs in GSETS:
        if gs["alpha"] == alpha and gs.get("extra_probes"):
            return spaces.strings(alpha, 3) + gs["extra_probes"]
    return spaces.strings(alpha, 3) + (["n+n*n", "n+n+n", "n*n+m"]
                                       if "n" in alpha else ["abab", "aaaa"])


def observe(p, alpha):
    out = []
    for s in probes(alpha):
        try:
            with quiet():
                r = p.parse(s)
            if isinstance(p, GLRParser):
                fv = ForestView(r.result)
                if fv.cyclic:
                    out.append(("ok", "cyclic"))
                else:
                    n = fv.count()
                    out.append(("ok", [r[i].to_str() for i in range(min(n, 30))],
                                str(n)))
            else:
                out.append(("ok", repr(r)))
        except parglare.SyntaxError as e:
            out.append(("syn", e.location.start_position, e.hint))
        except Exception as e:      # noqa: BLE001
            out.append(("exc", type(e).__name__))
    return hashlib.sha256(repr(out).encode()).hexdigest()[:12]


def make_parser(kind, g, kw, table=None):
    kw = dict(kw)
    if "tables" in kw:
        kw["tables"] = {"SLR": parglare.SLR, "LALR": parglare.LALR}[kw["tables"]]
    if table is not None:
        for k in ("tables", "prefer_shifts", "prefer_shifts_over_empty"):
            kw.pop(k, None)
        kw["table"] = table
    cls = Parser if kind == "lr" else GLRParser
    with quiet():
        return cls(g, **kw)


def do_build(d, opt, alpha, crash=None):
    """runs the real construction in directory d; returns an observation"""
    kind, kw = OPTS[opt]
    path = os.path.join(d, "g.pg")
    try:
        if kind == "pglr":
            from parglare.cli import compile_get_grammar_table
            with quiet(), contextlib.redirect_stderr(io.StringIO()):
                compile_get_grammar_table(path, False, False,
                                          kw["prefer_shifts"],
                                          kw["prefer_shifts_over_empty"])
            return ("compiled",)
        with quiet():
            g = Grammar.from_file(path)
        return ("built", observe(make_parser(kind, g, kw), alpha))
    except (parglare.exceptions.SRConflicts,
            parglare.exceptions.RRConflicts) as e:
        return ("conflicts", type(e).__name__)
    except Crash:
        raise
    except SystemExit:
        return ("exit",)
    except Exception as e:          # noqa: BLE001
        return ("exc", type(e).__name__)


class World:
    """one scratch directory, re-materialised from abstract states"""

    def __init__(self, gset):
        self.files = GSETS[gset]["files"]
        self.names = sorted(self.files)
        self.alpha = GSETS[gset]["alpha"]
        self.extra = GSETS[gset].get("extra_probes")
        self.d = tempfile.mkdtemp(prefix="pgmc-c12-")
        self.oracle_cache = {}
        self.twin_cache = {}

    def close(self):
        shutil.rmtree(self.d, ignore_errors=True)

    def materialize(self, st):
        v, files, order = st
        d = self.d
        for f in os.listdir(d):
            os.remove(os.path.join(d, f))
        self.write_grammar(d, v)
        for name, data in files:
            open(os.path.join(d, name), "wb").write(data)
        for t, f in enumerate(order):
            os.utime(os.path.join(d, f), (1000 + 10 * t, 1000 + 10 * t))

    def write_grammar(self, d, v):
        for name, k in zip(self.names, v):
            open(os.path.join(d, name), "w", encoding="utf-8").write(self.files[name][k])

    def text(self, v):
        return "".join(f"# {n}\n{self.files[n][k]}" for n, k in zip(self.names, v))

    def snapshot(self, v, old_order, touched):
        d = self.d
        files = []
        for f in sorted(os.listdir(d)):
            if f not in self.files:
                files.append((f, open(os.path.join(d, f), "rb").read()))
        present = set(self.files) | {f for f, _ in files}
        # files whose mtime moved past the logical clock were (re)written
        horizon = 1000 + 10 * len(old_order)
        moved = [f for f in sorted(present)
                 if os.path.getmtime(os.path.join(d, f)) > horizon
                 and f not in touched]
        newest = list(touched) + moved
        order = [f for f in old_order if f in present and f not in newest] + \
            [f for f in newest if f in present]
        return (v, tuple(files), tuple(order)), moved

    def oracle(self, v, opt):
        """no-cache oracle: the same construction from pristine copies of the
        current grammar files in an empty directory"""
        k = (v, opt)
        if k not in self.oracle_cache:
            d = tempfile.mkdtemp(prefix="pgmc-c12o-")
            self.write_grammar(d, v)
            self.oracle_cache[k] = do_build(d, opt, self.alpha)
            shutil.rmtree(d)
        return self.oracle_cache[k]

    def with_writers_table(self, v, writer_opt, opt):
        """cause oracle: the current construction given table= the table the
        writer's options produce (same Grammar object, no cache involved)"""
        k = (v, writer_opt, opt)
        if k not in self.twin_cache:
            d = tempfile.mkdtemp(prefix="pgmc-c12t-")
            self.write_grammar(d, v)
            try:
                with quiet():
                    g = Grammar.from_file(os.path.join(d, "g.pg"))
                itemset, ps, pse, ld = TABLE_KEY[writer_opt]
                from parglare.closure import LR_0, LR_1
                from parglare.tables import create_table
                with quiet():
                    table = create_table(
                        g, LR_0 if itemset == "SLR" else LR_1, 1, ps, pse,
                        lexical_disambiguation=ld)
                kind, kw = OPTS[opt]
                p = make_parser(kind, g, kw, table=table)
                res = ("built", observe(p, self.alpha))
            except (parglare.exceptions.SRConflicts,
                    parglare.exceptions.RRConflicts) as e:
                res = ("conflicts", type(e).__name__)
            except Exception as e:       # noqa: BLE001
                res = ("exc", type(e).__name__)
            shutil.rmtree(d)
            self.twin_cache[k] = res
        return self.twin_cache[k]


def events(tier):
    ev = [("build", o) for o in BUILDERS]
    ev += [("build", "pglr"), ("build", "pglrps")]
    ev += [("edit", "g.pg"), ("edit", "b.pg"), ("edit", "c.pg"),
           ("edit", "g.pge"),
           ("touch", "g.pg"), ("touch", "b.pg"), ("touch", "c.pg"),
           ("touch", "g.pge"),
           ("touch", "g.pgc"), ("delete",),
           # an incomplete cache file, however it came about (the statement
           # lists it as a possible on-disk state): a strict prefix / empty
           ("truncate", "half"), ("truncate", "empty")]
    ev += [("crash", o, c) for o in ("LR", "GLR")
           for c in ("half", "before-last", "unflushed-half")]
    return ev


def plan(tier, seed):
    if tier == "quick":
        return dict(depth=3, gsets=[0, 1, 2, 3, 4, 5], byte_stride=8, op_stride=4,
                    rt_space="k3", rt_win=None)
    return dict(depth=4, gsets=[0, 1, 2, 3, 4, 5], byte_stride=1, op_stride=1,
                rt_space="k4", rt_win=None)


def units(tier, seed):
    pl = plan(tier, seed)
    out = []
    nev = len(events(tier))
    for gs in pl["gsets"]:
        for first in range(nev):
            out.append(dict(kind="bfs", gset=gs, first=first, depth=pl["depth"]))
        for r in (0, 1):
            if gs == 2 or (gs == 3 and r == 1 and False):
                continue
            for w in ("LR", "GLR"):
                out.append(dict(kind="crash", gset=gs, r=r, writer=w,
                                byte_stride=pl["byte_stride"],
                                op_stride=pl["op_stride"]))
    # truncation sweep: the set with non-ASCII terminal texts (quick), all
    # sets (thorough); every byte length of the cache
    for gs in ([5] if tier == "quick" else pl["gsets"]):
        for w in (("LR",) if tier == "quick" else ("LR", "GLR")):
            for part in range(8):
                out.append(dict(kind="trunc", gset=gs, writer=w, part=part,
                                parts=8))
    n = len(spaces.grammars(**RT_SPACES[pl["rt_space"]]))
    for i in range(0, n, 400):
        out.append(dict(kind="roundtrip", space=pl["rt_space"],
                        idx=list(range(i, min(n, i + 400)))))
    return out


RT_SPACES = {
    "k3": dict(nts=("S", "A"), ts=("a", "b"), r=2, k=3),
    "k4": dict(nts=("S", "A"), ts=("a", "b"), r=2, k=4),
}


def worker_init():
    install_state_budget(800)


def canon(st):
    v, files, order = st
    return digest([list(v), [(f, hashlib.sha256(b).hexdigest()) for f, b in files],
                   list(order)])


def judge_build(world, judge, stats, st, writer, opt, got, hist):
    """invariant after a build: behaves exactly like the no-cache oracle"""
    v, files, order = st
    want = world.oracle(v, opt)
    stats["builds"] += 1
    if got == want:
        return
    case = {"grammar_files": world.text(v),
            "history": [list(map(str, h)) for h in hist], "build": opt}
    pgc_fresh = False
    if any(f == "g.pgc" for f, _ in files):
        pos = {f: k for k, f in enumerate(order)}
        pgc_fresh = pos.get("g.pgc", -1) > max(pos[f] for f in world.files)
    if pgc_fresh and writer is not None:
        wo, wv = writer
        if wv == v and TABLE_KEY[wo] != TABLE_KEY[opt]:
            twin = world.with_writers_table(v, wo, opt)
            if twin == got:
                ks = judge.known_seen
                ks["CACHE-IGNORES-OPTIONS"] = ks.get("CACHE-IGNORES-OPTIONS", 0) + 1
                return
    judge.deviation(None, "history", world.text(v), str(hist),
                    "parser built over the cache differs from the no-cache "
                    "oracle", {"got": got, "want": want,
                               "writer": writer, "fresh": pgc_fresh}, case)


def apply_event(world, judge, stats, st, writer, ev, hist):
    """executes one event with the real code; returns (new state, writer)"""
    v, files, order = st
    d = world.d
    names = {f for f, _ in files}
    if ev[0] == "touch" and ev[1] == "g.pgc" and (
            "g.pgc" not in names or writer is None or writer[1] != v):
        # Touching a cache whose *content* belongs to another version of the
        # grammar files forges the only freshness evidence the scheme has
        # (modification times); the statement lists absent / foreign / older /
        # incomplete caches, not forged ones.  Touching a current cache is
        # explored.
        return None
    if ev[0] in ("touch", "edit") and ev[1].endswith((".pg", ".pge")) and (
            ev[1] not in world.files or
            (ev[0] == "edit" and len(world.files[ev[1]]) < 2)):
        return None
    if ev[0] in ("delete", "truncate") and "g.pgc" not in names:
        return None
    world.materialize(st)
    touched = []
    w = writer
    if ev[0] == "build":
        got = do_build(d, ev[1], world.alpha)
        ns, moved = world.snapshot(v, order, [])
        if OPTS[ev[1]][0] != "pglr":
            judge_build(world, judge, stats, st, writer, ev[1], got, hist + [ev])
        if "g.pgc" in moved:
            w = (ev[1], v)
        return ns, w
    if ev[0] == "crash":
        # the same build with the cache write interrupted
        with FaultFS(d) as fs:
            do_build(d, ev[1], world.alpha)
        ops = fs.ops
        world.materialize(st)
        if not ops:
            return None            # nothing is written in this state
        writes = [k for k, (kind, n) in enumerate(ops) if kind == "write"]
        if ev[2] in ("half", "unflushed-half"):
            cp = (writes[len(writes) // 2], 0) if writes else (0, 0)
        else:
            cp = (len(ops) - 1, 0)
        try:
            with FaultFS(d, crash=cp) as fs:
                do_build(d, ev[1], world.alpha)
        except Crash:
            pass
        if ev[2] == "unflushed-half":
            fs.drop_unflushed()
        stats["crash_events"] += 1
        ns, moved = world.snapshot(v, order, [])
        if "g.pgc" in moved:
            w = (ev[1], v)
        return ns, w
    if ev[0] == "edit":
        k = world.names.index(ev[1])
        v = v[:k] + (1 - v[k],) + v[k + 1:]
        open(os.path.join(d, ev[1]), "w").write(world.files[ev[1]][v[k]])
        touched = [ev[1]]
    elif ev[0] == "touch":
        touched = [ev[1]]
    elif ev[0] == "delete":
        os.remove(os.path.join(d, "g.pgc"))
        w = None
    elif ev[0] == "truncate":
        data = open(os.path.join(d, "g.pgc"), "rb").read()
        cut = b"" if ev[1] == "empty" else data[:len(data) // 2]
        if cut == data:
            return None
        open(os.path.join(d, "g.pgc"), "wb").write(cut)
        touched = ["g.pgc"]
        w = None          # nobody's complete table any more
    ns, _ = world.snapshot(v, order, touched)
    return ns, w


def trunc_unit(u):
    """every truncation length of a complete, fresh cache file (an incomplete
    file however it came about - the write itself is atomic since fix 12):
    each builder must behave like the no-cache oracle"""
    world = World(u["gset"])
    judge = Judge(PROP, KNOWN)
    stats = collections.Counter()
    names = tuple(world.names)
    v = tuple(0 for _ in names)
    try:
        world.materialize((v, (), names))
        do_build(world.d, u["writer"], world.alpha)
        path = os.path.join(world.d, "g.pgc")
        data = open(path, "rb").read()
        newest = max(os.stat(os.path.join(world.d, f)).st_mtime
                     for f in os.listdir(world.d))
        for cut in range(u["part"], len(data), u["parts"]):
            for opt in ("LR", "GLR"):
                open(path, "wb").write(data[:cut])
                os.utime(path, (newest + 10, newest + 10))
                got = do_build(world.d, opt, world.alpha)
                want = world.oracle(v, opt)
                stats["builds"] += 1
                stats["truncation_points"] += 1
                if got != want:
                    judge.deviation(None, f"trunc/{u['writer']}->{opt}",
                                    str(u["gset"]), str(cut),
                                    "a parser built next to a truncated cache "
                                    "file differs from the no-cache oracle",
                                    {"got": str(got)[:200],
                                     "want": str(want)[:200]},
                                    {"grammar_files": world.text(v),
                                     "cache_written_by": u["writer"],
                                     "truncated_to_bytes": cut, "build": opt})
    finally:
        world.close()
    r = judge.result()
    r.update(stats)
    r.update(traces=stats["builds"], evaluations=stats["builds"],
             nontrivial=stats["builds"], transitions=stats["builds"],
             samples=[{"truncation_sweep": u["writer"], "gset": u["gset"],
                       "cache_bytes": len(data)}] if u["part"] == 0 else [])
    return r


def bfs_unit(u):
    world = World(u["gset"])
    judge = Judge(PROP, KNOWN)
    stats = collections.Counter()
    evs = events(None)
    init = (tuple(0 for _ in world.names), (), tuple(world.names))
    try:
        first = evs[u["first"]]
        res = apply_event(world, judge, stats, init, None, first, [])
        hashes = {canon(init)}
        if res is not None:
            stats["transitions"] += 1
            s0, w0 = res
            seen = {canon(s0): True}
            hashes.add(canon(s0))
            frontier = collections.deque([(s0, w0, [first])])
            while frontier:
                st, writer, hist = frontier.popleft()
                if len(hist) >= u["depth"]:
                    continue
                for ev in evs:
                    res = apply_event(world, judge, stats, st, writer, ev, hist)
                    if res is None:
                        continue
                    stats["transitions"] += 1
                    ns, w = res
                    c = canon(ns)
                    if c not in seen:
                        seen[c] = True
                        hashes.add(c)
                        frontier.append((ns, w, hist + [ev]))
    finally:
        world.close()
    r = judge.result()
    r.update(stats)
    r.update(state_hashes=sorted(hashes), traces=stats["builds"],
             evaluations=stats["builds"], nontrivial=stats["builds"],
             samples=[{"gset": u["gset"], "first_event": list(map(str, evs[u["first"]])),
                       "depth": u["depth"]}] if u["first"] == 0 else [])
    return r


def crash_unit(u):
    """shape D: every crash point of the cache write, both visibility
    variants, then every builder must behave like the no-cache oracle"""
    world = World(u["gset"])
    judge = Judge(PROP, KNOWN)
    stats = collections.Counter()
    r = u["r"]
    names = tuple(world.names)
    gi = world.names.index("g.pg")
    v = tuple(r if k == gi else 0 for k in range(len(names)))
    vo = tuple(1 - r if k == gi else 0 for k in range(len(names)))
    # two start states: no cache yet / a complete older cache of the other
    # root variant (made stale by the edit)
    starts = [(v, (), names)]
    hashes = set()
    try:
        world.materialize((vo, (), names))
        do_build(world.d, u["writer"], world.alpha)
        old, _ = world.snapshot(vo, names, [])
        stale = (v, old[1], tuple(f for f in old[2] if f != "g.pg") + ("g.pg",))
        starts.append(stale)
        for st in starts:
            world.materialize(st)
            with FaultFS(world.d) as fs:
                do_build(world.d, u["writer"], world.alpha)
            ops = list(fs.ops)
            stats["write_ops"] += len(ops)
            stats["write_bytes"] += sum(n for k, n in ops if k == "write")
            for cp in crash_points(ops, u["byte_stride"], u["op_stride"]):
                for variant in ("flushed", "unflushed"):
                    world.materialize(st)
                    try:
                        with FaultFS(world.d, crash=cp) as fs:
                            do_build(world.d, u["writer"], world.alpha)
                    except Crash:
                        pass
                    if variant == "unflushed" and not fs.drop_unflushed():
                        continue
                    crashed, _ = world.snapshot(st[0], st[2], [])
                    hashes.add(canon(crashed))
                    stats["crash_points"] += 1
                    for opt in (u["writer"], "GLR" if u["writer"] == "LR" else "LR"):
                        world.materialize(crashed)
                        got = do_build(world.d, opt, world.alpha)
                        stats["transitions"] += 1
                        writer = (u["writer"], st[0])
                        judge_build(world, judge, stats, crashed, writer, opt,
                                    got, [("crash", u["writer"], cp, variant)])
    finally:
        world.close()
    res = judge.result()
    res.update(stats)
    res.update(state_hashes=sorted(hashes), traces=stats["builds"],
               evaluations=stats["builds"], nontrivial=stats["crash_points"],
               samples=[{"crash_sweep": u["writer"], "gset": u["gset"],
                         "ops": stats["write_ops"],
                         "bytes": stats["write_bytes"]}])
    return res


def roundtrip_unit(u):
    from parglare.tables import create_table
    from parglare.closure import LR_0, LR_1
    from parglare.tables.persist import (load_table, save_table,
                                         table_to_serializable)
    from pgmc.drive import grammar_from_string
    sp = RT_SPACES[u["space"]]
    nts = sp["nts"]
    gs = spaces.grammars(**sp)
    judge = Judge(PROP, KNOWN)
    stats = collections.Counter()
    d = tempfile.mkdtemp(prefix="pgmc-c12r-")
    f1, f2 = os.path.join(d, "t1.pgc"), os.path.join(d, "t2.pgc")
    try:
        for gi in u["idx"]:
            text = spaces.render_grammar(gs[gi], nts, "M0")
            for itemset, ps, pse, ld in (("LALR", True, True, True),
                                         ("LALR", False, False, False),
                                         ("SLR", False, False, True)):
                try:
                    g = grammar_from_string(text)
                    with quiet():
                        t = create_table(g, LR_0 if itemset == "SLR" else LR_1,
                                         1, ps, pse, lexical_disambiguation=ld)
                except (Exception, BudgetExceeded):    # noqa: BLE001
                    continue
                stats["roundtrips"] += 1
                save_table(f1, t)
                with quiet():
                    t2 = load_table(f1, g)
                save_table(f2, t2)
                probs = []
                if table_to_serializable(t2) != table_to_serializable(t):
                    probs.append("actions/gotos/finish flags differ")
                if open(f1, "rb").read() != open(f2, "rb").read():
                    probs.append("second save is not byte-identical")

                def conf(tab):
                    return (sorted((c.state.state_id, c.term.name,
                                    tuple(p.prod_id for p in c.productions))
                                   for c in tab.sr_conflicts),
                            sorted((c.state.state_id, c.term.name,
                                    tuple(p.prod_id for p in c.productions))
                                   for c in tab.rr_conflicts),
                            [sorted(x.name for x in s.dynamic)
                             for s in tab.states])
                if conf(t) != conf(t2):
                    probs.append("recomputed conflicts / dynamic marks differ")
                if probs:
                    judge.deviation(None, "roundtrip", text, "",
                                    "save/load round trip is not the identity: "
                                    + "; ".join(probs), {"p": probs},
                                    {"grammar": text, "table": [itemset, ps, pse]})
    finally:
        shutil.rmtree(d, ignore_errors=True)
    r = judge.result()
    r.update(stats)
    r.update(evaluations=stats["roundtrips"], nontrivial=stats["roundtrips"],
             samples=[])
    return r


def run_unit(u):
    if u["kind"] == "bfs":
        return bfs_unit(u)
    if u["kind"] == "trunc":
        return trunc_unit(u)
    if u["kind"] == "crash":
        return crash_unit(u)
    return roundtrip_unit(u)


def evidence(total, tier, seed, complete):
    hashes = set(total.get("state_hashes", []))
    cov = {
        "states": len(hashes),
        "transitions": total.get("transitions", 0),
        "traces_validated_against_impl": total.get("builds", 0),
        "evaluations": total.get("evaluations", 0),
        "distinct_nontrivial": total.get("nontrivial", 0),
        "rule": "shape C: breadth-first search over event histories (8 kinds "
                "of build incl. pglr compile, edit root / imported file, touch "
                "g.pg / b.pg / g.pgc, delete cache, 6 interrupted builds) on a "
                "real directory, every transition executed by the real code, "
                "states canonicalised as (file bytes, mtime order) with a "
                "logical clock; after every build the parser is compared with "
                "the no-cache oracle on every probe input; shape D: every "
                "crash point of the cache write (operation boundaries and "
                "byte offsets, flushed / unflushed visibility) from a cold and "
                "from a stale-cache state, followed by two builders; plus the "
                "save/load round trip for every small grammar x 3 option sets",
        "samples": total.get("samples", [])[:6],
        "exhaustive": bool(complete),
        "domain": {k: str(v) for k, v in plan(tier, seed).items()},
        "builds_compared_with_oracle": total.get("builds", 0),
        "crash_points": total.get("crash_points", 0),
        "crash_events_in_histories": total.get("crash_events", 0),
        "roundtrips": total.get("roundtrips", 0),
        "write_ops_recorded": total.get("write_ops", 0),
    }
    return cov, [
        "process crash only (no power-loss reordering); equal mtimes never "
        "occur (logical clock) and are not claimed",
        "force_load_table=True is documented to skip the freshness check and "
        "is not an event",
        "cause oracle for CACHE-IGNORES-OPTIONS: the deviation is attributed "
        "only if the explorer's own state says a fresh cache was written under "
        "other table options for the same grammar files AND the observation "
        "equals that of a parser given table= the writer's table",
    ]


def replay(rec):
    return False, "history replay: see 'history' in the file"
