"""C10 - rejections are always reported as SyntaxError at the first offending
token (shapes A+B)."""
import collections

import parglare

from pgmc import spaces
from pgmc.drive import (BudgetExceeded, Monitor, build, grammar_from_string,
                        install_state_budget, parse)
from pgmc.findings import Judge, Known
from pgmc.ref.cfg import Matchers, ws_skipper
from pgmc.ref.earley import CharEarley, Earley
from props.c04 import generated_inputs, shortest_yields

PROP = "C10"
KNOWN = Known(PROP)
FLOOR = {"quick": 1000, "thorough": 5000}
CHUNK = 30
SPACES = {
    "k3": dict(nts=("S", "A"), ts=("a", "b"), r=2, k=3),
    "k4only": dict(nts=("S", "A"), ts=("a", "b"), r=2, k=4, kmin=4),
}
WS = " \n"


def plan(tier, seed):
    if tier == "quick":
        return [
            dict(space="k3", lexmap="M0", alpha="ab \n", nmax=4),
            dict(space="k3", lexmap="M0", alpha="abx", nmax=3),
            # '\n' is not layout here: the error position can be a newline
            dict(space="k3", lexmap="M0", alpha="ab\n", nmax=3, ws=" "),
            dict(space="k3", lexmap="M1", alpha="ab", nmax=4),
            dict(space="k3", lexmap="M3", alpha="ab", nmax=4),
            dict(space="k4only", win=(seed, 40), lexmap="M0", alpha="ab ", nmax=4),
            dict(space="lists"),
            dict(space="layout-rule", nmax=5),
        ]
    return [
        dict(space="k3", lexmap="M0", alpha="ab \n", nmax=5),
        dict(space="k3", lexmap="M0", alpha="abx ", nmax=4),
        dict(space="k3", lexmap="M0", alpha="ab\n ", nmax=4, ws=" "),
        dict(space="k3", lexmap="M1", alpha="ab ", nmax=4),
        dict(space="k3", lexmap="M2", alpha="ab ", nmax=4),
        dict(space="k3", lexmap="M3", alpha="ab ", nmax=4),
        dict(space="k4only", lexmap="M0", alpha="ab \n", nmax=4),
        dict(space="k4only", lexmap="M3", alpha="ab", nmax=4),
        dict(space="lists"),
        dict(space="layout-rule", nmax=6),
    ]


def units(tier, seed):
    out = []
    for row in plan(tier, seed):
        if row["space"] == "lists":
            out.append(dict(row))
            continue
        if row["space"] == "layout-rule":
            out += [dict(row, part=i, parts=16) for i in range(16)]
            continue
        n = len(spaces.grammars(**SPACES[row["space"]]))
        win = row.get("win")
        idxs = list(range(n)) if win is None else list(
            spaces.window(n, win[0], win[1]))
        for i in range(0, len(idxs), CHUNK):
            u = {k: v for k, v in row.items() if k != "win"}
            u["idx"] = idxs[i:i + CHUNK]
            out.append(u)
    return out


def worker_init():
    install_state_budget(400)


def linecol(s, pos):
    line = s.count("\n", 0, pos) + 1
    last = s.rfind("\n", 0, pos)
    return line, pos - (last + 1)


def check_error(judge, st, cfg, gk, s, case, exc, want_pos, expected, glr):
    """exc is a parglare.SyntaxError raised for a non-sentence"""
    probs = []
    loc = exc.location
    pos = loc.start_position
    if pos != want_pos:
        probs.append(("position", pos, want_pos))
    else:
        try:
            if (loc.line, loc.column) != linecol(s, pos):
                probs.append(("line/column", loc.line, loc.column,
                              linecol(s, pos)))
        except Exception as e:     # noqa: BLE001
            probs.append(("line/column raises", type(e).__name__))
    try:
        text = str(exc)
        eof = "end of file" in exc.message
        if eof != (pos == len(s)):
            probs.append(("end-of-file wording", eof, pos, len(s)))
        if not text:
            probs.append(("empty message",))
    except Exception as e:         # noqa: BLE001
        probs.append(("str(error) raises", type(e).__name__, str(e)[:60]))
    if glr and pos == want_pos:
        got = {x.name for x in exc.symbols_expected} - {"STOP"}
        if got != set(expected):
            probs.append(("symbols_expected", sorted(got), sorted(expected)))
    if probs:
        kinds = sorted({p[0] for p in probs})
        judge.deviation("ERROR-REPORT", cfg, gk, s,
                        "SyntaxError does not describe the first offending "
                        "token: " + ", ".join(kinds), {"problems": probs}, case)


def run_unit(u):
    if u["space"] == "lists":
        return lists_unit()
    if u["space"] == "layout-rule":
        return layout_rule_unit(u)
    sp = SPACES[u["space"]]
    nts, ts = sp["nts"], sp["ts"]
    gs = spaces.grammars(**sp)
    lm = u["lexmap"]
    lexmap = spaces.LEXMAPS[lm]
    inputs = spaces.strings(u["alpha"], u["nmax"])
    mon = Monitor()
    judge = Judge(PROP, KNOWN)
    st = collections.Counter()
    samples = []
    WS = u.get("ws", " \n")
    skip = ws_skipper(WS)
    for gi in u["idx"]:
        prods = gs[gi]
        gk = spaces.gkey(prods, nts)
        ordered = spaces.ordered_prods(prods, nts)
        text = spaces.render_grammar(prods, nts, lm)
        used = {x for _, r in ordered for x in r if x in lexmap}
        ce = CharEarley(ordered, nts[0],
                        Matchers({t: lexmap[t] for t in used}), skip)
        parsers = []
        for tk in ("LALR", "SLR"):
            try:
                g = grammar_from_string(text)
                parsers.append((f"glr/{tk}", "glr", True, build(
                    "glr", g, mon, tag=(gi, tk), tables=tk, ws=WS),
                    {"tables": tk, "ws": WS}))
            except (Exception, BudgetExceeded):   # noqa: BLE001
                st["no_parser"] += 1
            for strict in (True, False):
                opts = {"tables": tk, "ws": WS}
                if strict:
                    opts.update(prefer_shifts=False,
                                prefer_shifts_over_empty=False)
                try:
                    g = grammar_from_string(text)
                    p = build("lr", g, mon, tag=(gi, tk, strict), **opts)
                except (Exception, BudgetExceeded):   # noqa: BLE001
                    continue
                det = strict and all(len(a) == 1 for s_ in p.table.states
                                     for a in s_.actions.values())
                if strict and not det:
                    continue
                if strict and lm != "M0":
                    continue      # "deterministic" presumes no lexical overlap
                parsers.append((f"lr/{tk}/{'det' if det else 'resolved'}",
                                "lr", det, p, opts))
        # automaton-generated inputs: every error cell of the table
        extra = []
        if lm == "M0" and parsers:
            earley = Earley(ordered, nts[0])
            ys = shortest_yields(ordered, ts)
            for toks in generated_inputs(parsers[0][3].table, ts, earley, ys):
                s = "".join(toks)
                if len(s) > u["nmax"]:
                    extra.append(s)
        st["generated_inputs"] += len(extra)
        for s in list(inputs) + extra:
            an = ce.analyse(s)
            if an["sentence"]:
                continue
            first = True
            for cfgname, kind, strict, p, opts in parsers:
                cfg = f"{lm}/{cfgname}" + (f"/ws={WS!r}" if "ws" in u else "")
                case = {"grammar": text, "parser": kind, "options": opts,
                        "input": s}
                o = parse(p, s, mon)
                st["evaluations"] += 1
                if first and an["pos"] > 0:
                    st["nontrivial"] += 1
                first = False
                if o.kind == "syntax":
                    if strict:
                        check_error(judge, st, cfg, gk, s, case, o.exc,
                                    an["pos"], an["expected"], kind == "glr")
                    else:
                        try:
                            str(o.exc)
                        except Exception as e:    # noqa: BLE001
                            judge.deviation(None, cfg, gk, s,
                                            "str(error) raises",
                                            {"type": type(e).__name__}, case)
                elif o.kind == "disamb" and kind == "lr":
                    st["disamb"] += 1
                    exc = o.exc
                    pos = exc.location.start_position
                    ok = len(exc.tokens) >= 2 and isinstance(pos, int)
                    for t in exc.tokens:
                        q = ce.m.match(t.symbol.name, s, pos) if ok else None
                        if q is None or s[pos:q] != t.value:
                            ok = False
                    try:
                        str(exc)
                    except Exception:           # noqa: BLE001
                        ok = False
                    if not ok:
                        judge.deviation(None, cfg, gk, s,
                                        "DisambiguationError not located at "
                                        "an ambiguous token",
                                        {"pos": pos, "tokens": str(exc.tokens)},
                                        case)
                elif o.kind == "ok":
                    if strict:
                        judge.deviation(None, cfg, gk, s,
                                        "non-sentence accepted", {}, case)
                    else:
                        # resolved conflicts never accept non-sentences (C04)
                        judge.deviation(None, cfg, gk, s,
                                        "non-sentence accepted by LR", {}, case)
                elif o.kind == "budget":
                    st["budget_exceeded"] += 1
                    judge.deviation("LR-NONTERMINATION" if kind == "lr"
                                    else None, cfg, gk, s,
                                    "parse does not terminate (step budget)",
                                    {"kind": kind}, case)
                else:
                    judge.deviation("WRONG-EXCEPTION", cfg, gk, s,
                                    f"rejection raised {o.brief()} instead of "
                                    "SyntaxError",
                                    {"type": type(o.exc).__name__}, case)
        if not samples:
            samples.append({"grammar": gk, "lexmap": lm,
                            "parsers": [c[0] for c in parsers],
                            "inputs": f"all non-sentences among "
                            f"{len(inputs)} strings over {u['alpha']!r} up to "
                            f"{u['nmax']} + {len(extra)} automaton-generated"})
    r = judge.result()
    r.update(st)
    r.update(states=len(mon.states), transitions=mon.transitions,
             traces=mon.traces, samples=samples)
    return r


# a LAYOUT rule whose items are parsed token by token (block comments): the
# first offending token can lie inside the layout.  Reference: the same
# language with the layout written out in the grammar (no skipping at all).
LAYOUT_REAL = ('S: S p n | n;\n'
               'LAYOUT: LI | LAYOUT LI | EMPTY;\nLI: WS | BC;\n'
               'BC: co NC cc | co cc;\n'
               'terminals\nn: "n";\np: "+";\nWS: /[_\\n]+/;\nco: "/*";\n'
               'cc: "*/";\nNC: /([^*]|\\*(?!\\/))+/;\n')
LAYOUT_FLAT = [("Z", ("L", "S", "L")),
               ("S", ("S", "L", "p", "L", "n")), ("S", ("n",)),
               ("L", ("L", "LI")), ("L", ()),
               ("LI", ("WS",)), ("LI", ("BC",)),
               ("BC", ("co", "NC", "cc")), ("BC", ("co", "cc"))]
LAYOUT_LEX = {"n": ("s", "n"), "p": ("s", "+"), "WS": ("r", "[_\\n]+"),
              "co": ("s", "/*"), "cc": ("s", "*/"),
              "NC": ("r", "([^*]|\\*(?!\\/))+")}


def layout_rule_unit(u):
    mon = Monitor()
    judge = Judge(PROP, KNOWN)
    st = collections.Counter()
    ce = CharEarley(LAYOUT_FLAT, "Z", Matchers(LAYOUT_LEX), lambda s, p: p)
    inputs = spaces.strings("n+_/*\n", u["nmax"])
    inputs = inputs[u["part"]::u["parts"]]
    parsers = []
    for tk in ("LALR", "SLR"):
        for kind in ("lr", "glr"):
            parsers.append((f"{kind}/{tk}", kind, build(
                kind, grammar_from_string(LAYOUT_REAL), mon,
                tag=("layout-rule", kind, tk), tables=tk)))
    for s in inputs:
        an = ce.analyse(s)
        first = True
        for cfgname, kind, p in parsers:
            cfg = f"layout-rule/{cfgname}"
            case = {"grammar": LAYOUT_REAL, "parser": kind,
                    "options": {"tables": cfgname.split("/")[1]}, "input": s}
            o = parse(p, s, mon)
            st["evaluations"] += 1
            if an["sentence"]:
                if o.kind != "ok":
                    judge.deviation(None, cfg, "layout-rule", s,
                                    "sentence (with layout) rejected",
                                    {"o": o.brief()}, case)
                continue
            if first and an["pos"] > 0:
                st["nontrivial"] += 1
            first = False
            if o.kind == "syntax":
                check_error(judge, st, cfg, "layout-rule", s, case, o.exc,
                            an["pos"], an["expected"], False)
            elif o.kind == "ok":
                judge.deviation(None, cfg, "layout-rule", s,
                                "non-sentence accepted", {}, case)
            elif o.kind == "budget":
                judge.deviation(None, cfg, "layout-rule", s,
                                "parse does not terminate (step budget)",
                                {"kind": kind}, case)
            else:
                judge.deviation("WRONG-EXCEPTION", cfg, "layout-rule", s,
                                f"rejection raised {o.brief()} instead of "
                                "SyntaxError",
                                {"type": type(o.exc).__name__}, case)
    r = judge.result()
    r.update(st)
    r.update(states=len(mon.states), transitions=mon.transitions,
             traces=mon.traces,
             samples=[{"grammar": LAYOUT_REAL, "family": "LAYOUT rule with "
                       "block comments", "inputs": len(inputs)}])
    return r


def lists_unit():
    """list (non-string) inputs with custom recognisers, ws=None"""
    import itertools
    mon = Monitor()
    judge = Judge(PROP, KNOWN)
    st = collections.Counter()

    def rec(x):
        def r(inp, pos):
            # indexes the input without a guard, as a user recogniser may:
            # parglare never calls a recogniser at the end of the input
            if inp[pos] == x:
                return inp[pos:pos + 1]
        return r
    gspace = spaces.grammars(nts=("S", "A"), ts=("a", "b"), r=2, k=3)
    items = ["a", "b", 7]
    for gi in range(0, len(gspace), 9):
        prods = gspace[gi]
        nts = ("S", "A")
        gk = spaces.gkey(prods, nts)
        ordered = spaces.ordered_prods(prods, nts)
        used = sorted({x for _, r in ordered for x in r if x in ("a", "b")})
        by = {}
        for l, r in ordered:
            by.setdefault(l, []).append(" ".join(r) if r else "EMPTY")
        text = "\n".join(f"{l}: " + " | ".join(by[l]) + ";" for l in nts
                         if l in by)
        if used:
            text += "\nterminals\n" + "\n".join(f"{t}: ;" for t in used)
        earley = Earley(ordered, nts[0])
        try:
            g = grammar_from_string(text, recognizers={t: rec(t) for t in used})
            p = build("glr", g, mon, tag=gi, ws=None)
        except (Exception, BudgetExceeded) as e:    # noqa: BLE001
            judge.deviation(None, "lists", gk, "", "construction failed",
                            {"type": type(e).__name__, "m": str(e)[:80]},
                            {"grammar": text})
            continue
        for n in range(0, 4):
            for w in itertools.product(items, repeat=n):
                w = list(w)
                toks = []
                for x in w:
                    if x in used:
                        toks.append(x)
                    else:
                        break
                sentence, viable, expected, _ = earley.analyse(toks)
                if sentence and len(toks) == len(w):
                    continue
                want = min(viable, len(toks))
                o = parse(p, w, mon)
                st["evaluations"] += 1
                st["nontrivial"] += 1 if want > 0 else 0
                case = {"grammar": text, "input": repr(w), "parser": "glr",
                        "options": {"ws": None}}
                if o.kind != "syntax":
                    judge.deviation("WRONG-EXCEPTION", "lists", gk, repr(w),
                                    f"list input: {o.brief()}",
                                    {"kind": o.kind}, case)
                    continue
                probs = []
                pos = o.exc.location.start_position
                if pos != want:
                    probs.append(("position", pos, want))
                try:
                    str(o.exc)
                    if (o.exc.location.line, o.exc.location.column) != (1, pos):
                        probs.append(("line/column",))
                    if ("end of file" in o.exc.message) != (pos == len(w)):
                        probs.append(("end-of-file wording",))
                except Exception as e:      # noqa: BLE001
                    probs.append(("str(error) raises", type(e).__name__))
                if probs:
                    judge.deviation("ERROR-REPORT", "lists", gk, repr(w),
                                    "list input: wrong error report",
                                    {"problems": probs}, case)
    r = judge.result()
    r.update(st)
    r.update(states=len(mon.states), transitions=mon.transitions,
             traces=mon.traces,
             samples=[{"family": "list inputs over ['a','b',7], custom "
                       "recognisers, ws=None"}])
    return r


def evidence(total, tier, seed, complete):
    cov = {
        "states": total.get("states", 0),
        "transitions": total.get("transitions", 0),
        "traces_validated_against_impl": total.get("traces", 0),
        "evaluations": total.get("evaluations", 0),
        "distinct_nontrivial": total.get("nontrivial", 0),
        "rule": "every grammar x {GLR, deterministic LR, LR with resolved "
                "conflicts} x {LALR, SLR} x every non-sentence up to the bound "
                "(empty, layout-only, layout-terminated, multi-line, junk "
                "character) + access string of every table state followed by "
                "every terminal (all error cells) + list inputs; oracle = "
                "character-level Earley viable-prefix analysis; non-trivial = "
                "distinct non-sentence whose longest viable prefix is not empty",
        "samples": total.get("samples", [])[:6],
        "exhaustive": bool(complete),
        "domain": [{k: str(v) for k, v in row.items()}
                   for row in plan(tier, seed)],
    }
    for k in ("generated_inputs", "disamb", "budget_exceeded", "no_parser"):
        cov[k] = total.get(k, 0)
    return cov, [
        "reference: Earley recogniser over the token lattice (pgmc/ref/earley.py)",
        "STOP is left out of the symbols_expected comparison on both sides",
        "GLR under lexical overlap: expected position = layout-skipped farthest "
        "end of a viable token prefix over all tokenisations",
    ]


def replay(rec):
    return False, "run the stand-alone script stored in the replay file"
