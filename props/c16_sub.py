"""Worker process of C16: computes, for a chunk of grammars, the observable
digests under one hash configuration.

    python -m props.c16_sub <space> <lo> <hi> slots:<STOP>,<EMPTY>
    python -m props.c16_sub <space> <lo> <hi> seed      (PYTHONHASHSEED set by
                                                         the caller)
Prints JSON {grammar key: {"digests": [...], "orders": n}}.
"""
import hashlib
import itertools
import json
import sys

import parglare.grammar as G

mode = sys.argv[4]
if mode.startswith("slots:"):
    a, b = mode[6:].split(",")
    # before the grammar-of-grammars parser exists: no container keyed by
    # these two symbols has been built yet
    G.STOP._hash = int(a)
    G.EMPTY._hash = int(b)

from parglare.closure import LR_0, LR_1            # noqa: E402
from parglare.tables import create_table           # noqa: E402
from parglare.tables.persist import table_to_serializable   # noqa: E402

from pgmc import spaces                             # noqa: E402
from pgmc.drive import (BudgetExceeded, ForestView, Monitor, build,   # noqa
                        grammar_from_string, install_state_budget, parse, quiet)

SPACES = {
    "k2": dict(nts=("S", "A"), ts=("a", "b"), r=2, k=2),
    "k3": dict(nts=("S", "A"), ts=("a", "b"), r=2, k=3),
    "k4only": dict(nts=("S", "A"), ts=("a", "b"), r=2, k=4, kmin=4),
}


def observe(text, assign, inputs):
    """everything C16 calls observable, for one grammar under one hash
    assignment of its terminals"""
    out = []
    for itemset in ("LALR", "SLR"):
        for ps in (False, True):
            g = grammar_from_string(text)
            if assign:
                for name, h in assign.items():
                    t = g.terminals.get(name)
                    if t is not None:
                        t._hash = h
            try:
                with quiet():
                    tab = create_table(g, LR_0 if itemset == "SLR" else LR_1, 1,
                                       ps, ps)
            except BudgetExceeded:
                out.append("budget")
                continue
            ser = json.dumps(table_to_serializable(tab), sort_keys=True)
            conf = [("sr", c.state.state_id, c.term.name,
                     [p.prod_id for p in c.productions]) for c in tab.sr_conflicts] + \
                   [("rr", c.state.state_id, c.term.name,
                     [p.prod_id for p in c.productions]) for c in tab.rr_conflicts]
            out.append([hashlib.sha256(ser.encode()).hexdigest()[:16], conf])
    # forests: order of trees; with consume_input=False several accepted
    # heads feed the forest root
    for extra in ({}, {"consume_input": False}):
        g = grammar_from_string(text)
        if assign:
            for name, h in assign.items():
                t = g.terminals.get(name)
                if t is not None:
                    t._hash = h
        try:
            p = build("glr", g, MON, ws="", **extra)
            for s in (inputs if not extra else [x for x in inputs
                                                  if len(x) <= 2]):
                o = parse(p, s, MON)
                if o.kind == "ok":
                    fv = ForestView(o.value.result)
                    if fv.cyclic:
                        out.append("cyclic")
                    else:
                        n = fv.count()
                        out.append([o.value[i].to_str()
                                    for i in range(min(n, 12))] + [str(n)])
                else:
                    out.append(o.kind)
        except BudgetExceeded:
            out.append("budget")
    return hashlib.sha256(json.dumps(out).encode()).hexdigest()[:16]


MON = Monitor()


def main():
    space, lo, hi = sys.argv[1], int(sys.argv[2]), int(sys.argv[3])
    install_state_budget(400)
    sp = SPACES[space]
    gs = spaces.grammars(**sp)
    inputs = spaces.strings("ab", 3)
    res = {}
    if mode == "seed":
        assigns = [None]
    else:
        free = [h for h in range(8) if h not in (G.STOP._hash, G.EMPTY._hash)]
        assigns = [{"a": x, "b": y} for x, y in itertools.permutations(free, 2)]
        # colliding hashes
        assigns += [{"a": 0, "b": 0}, {"a": G.STOP._hash, "b": 1},
                    {"a": 3, "b": G.EMPTY._hash},
                    {"a": G.STOP._hash, "b": G.STOP._hash}]
        if len(sys.argv) > 5:          # window over the assignments
            m, k = map(int, sys.argv[5].split("/"))
            assigns = [a for i, a in enumerate(assigns) if i % k == m % k]
    for gi in range(lo, hi):
        prods = gs[gi]
        text = spaces.render_grammar(prods, sp["nts"], "M0")
        ds = []
        for a in assigns:
            try:
                ds.append(observe(text, a, inputs))
            except Exception as e:      # noqa: BLE001
                ds.append("EXC:" + type(e).__name__ + ":" + str(e)[:60])
        res[spaces.gkey(prods, sp["nts"])] = {"digests": sorted(set(ds)),
                                              "orders": len(assigns)}
    json.dump({"res": res, "states": len(MON.states),
               "transitions": MON.transitions, "traces": MON.traces},
              sys.stdout)


if __name__ == "__main__":
    main()
