"""C03 - the forest packs each derivation once; counting and indexing are
consistent (shape A).  The own walker (pgmc.drive.ForestView) is the ground
truth about the returned object graph; parglare's own counting/indexing code
is what is judged."""
from parglare.exceptions import LoopError

from pgmc import glrsweep
from pgmc.drive import INF, ForestView, tree_canon
from pgmc.findings import Known

PROP = "C03"
KNOWN = Known(PROP)
FLOOR = {"quick": 1000, "thorough": 5000}
worker_init = glrsweep.worker_init
ALL = ("M0", "M1", "M2", "M3", "M4")
K = 300


def plan(tier, seed):
    if tier == "quick":
        return [
            dict(space="k3", lexmaps=ALL, wss=("",), alpha="ab", nmax=4),
            dict(space="k3", win=(seed, 2), lexmaps=("M5",), wss=(" ",),
                 alpha="ab ", nmax=4),
            dict(space="k4only", win=(seed, 40), lexmaps=("M0", "M3"),
                 wss=("",), alpha="ab", nmax=4),
            dict(space="big", lexmaps=("M0",), wss=("",), alpha="", nmax=0,
                 ops=(10, 20)),
            # the forest of a parser that carries an (accept-all) dynamic
            # filter: the filter leaves its traces on the forest's nodes
            dict(space="k3", win=(seed, 4), lexmaps=("M0", "M3"), wss=("",),
                 alpha="ab", nmax=4, filter=True),
        ]
    return [
        dict(space="k3", lexmaps=ALL, wss=("", " "), alpha="ab", nmax=5),
        dict(space="k3", lexmaps=("M5",), wss=(" ",), alpha="ab ", nmax=4),
        dict(space="k4only", lexmaps=("M0",), wss=("",), alpha="ab", nmax=5),
        dict(space="k4only", lexmaps=("M1", "M2", "M3", "M4"), wss=("",),
             alpha="ab", nmax=4),
        dict(space="r3", lexmaps=("M0",), wss=("",), alpha="ab", nmax=4),
        dict(space="n3", lexmaps=("M0",), wss=("",), alpha="ab", nmax=4),
        dict(space="big", lexmaps=("M0",), wss=("",), alpha="", nmax=0,
             ops=(10, 20, 30, 40)),
        dict(space="k3", lexmaps=("M0", "M3"), wss=("",), alpha="ab", nmax=4,
             filter=True),
    ]


def units(tier, seed):
    rows = plan(tier, seed)
    out = glrsweep.make_units([r for r in rows if r["space"] != "big"])
    for r in rows:
        if r["space"] == "big":
            for n in r["ops"]:
                for gram in (0, 1, 2):
                    out.append({"space": "big", "ops": n, "gram": gram})
    from pgmc import longfam
    out += longfam.units((11, 12) if tier == "quick" else (11, 12, 13, 14))
    return out


def check_case(ctx, an, s, p, o):
    if not an.sentence or o.kind != "ok":
        return
    forest = o.value
    fv = ForestView(forest.result)
    st = ctx.stats
    problems = []

    # --- counting ------------------------------------------------------
    try:
        sol = forest.solutions
        ln = len(forest)
        loop = False
    except LoopError:
        loop = True
    if loop:
        st["loops"] = st.get("loops", 0) + 1
        if an.count != INF:
            ctx.deviation("GLR-SPURIOUS-LOOP", s,
                          "LoopError although the input has finitely many "
                          "derivations", {"ref_count": an.count})
        else:
            st["nontrivial"] += 1
        return
    if fv.cyclic:
        problems.append(("cyclic-forest-counted", sol))
        ctx.deviation(None, s, "cyclic forest was counted", {"p": problems})
        return
    trees = fv.trees(K)
    own = fv.count()
    if sol != ln:
        problems.append(("len!=solutions", ln, sol))
    ident = fv.identical_alternatives()
    if ident:
        problems.append(("identical-alternatives", ident))
    if trees is not None:
        distinct = len(set(trees))
        if sol != distinct:
            problems.append(("solutions!=distinct-trees", sol, distinct))
    else:
        distinct = None
        if sol != own:
            problems.append(("solutions!=own-count", sol, own))

    # --- ambiguities ---------------------------------------------------
    amb_own = 0
    for nd in fv.parents():
        if len(nd.possibilities) > 1:
            ks = set()
            for a in nd.possibilities:
                ks.add((id(a.production), tuple(id(c) for c in a.children))
                       if a.is_nonterm() else ("t", a.symbol.name, a.value))
            if len(ks) > 1:
                amb_own += 1
    if forest.ambiguities != amb_own:
        problems.append(("ambiguities", forest.ambiguities, amb_own))

    # --- indexing ------------------------------------------------------
    if ln <= K:
        idxs = list(range(ln))
    else:
        idxs = list(range(64)) + list(range(ln - 64, ln))
    seen = {}
    for i in idxs:
        try:
            a = tree_canon(forest[i])
            b = tree_canon(forest.get_tree(i))
            c = tree_canon(forest.get_nonlazy_tree(i))
            a2 = tree_canon(forest[i])
        except Exception as e:     # noqa: BLE001
            problems.append(("index-raises", i, type(e).__name__))
            break
        if not (a == b == c == a2):
            problems.append(("lazy/nonlazy/repeat differ", i))
            break
        if a in seen:
            problems.append(("same tree at two indexes", seen[a], i))
        seen.setdefault(a, i)
    if idxs and not any(p[0] == "index-raises" for p in problems):
        try:
            # compared structurally: to_str() memoises per node object with
            # the indentation baked in, so a node shared by two parents of
            # get_first_tree()'s unpacked tree is *printed* at the wrong depth
            # although the tree is the same (not a C03 matter)
            if tree_canon(forest.get_first_tree()) != tree_canon(forest[0]):
                problems.append(("get_first_tree != forest[0]",))
        except Exception as e:     # noqa: BLE001
            problems.append(("get_first_tree raises", type(e).__name__))
        if trees is not None and ln <= K:
            if sorted(map(repr, seen)) != sorted(map(repr, set(trees))):
                problems.append(("indexed trees != trees of the object graph",
                                 len(seen), len(set(trees))))
            try:
                it = [tree_canon(t) for t in forest]
                nl = [tree_canon(t) for t in forest.nonlazy_iter()]
                by_idx = [tree_canon(forest[i]) for i in range(ln)]
                if it != by_idx or nl != by_idx:
                    problems.append(("iteration differs from indexing",))
            except Exception as e:     # noqa: BLE001
                problems.append(("iteration raises", type(e).__name__))
    for i in (ln, ln + 1, 2 * ln + 1):
        try:
            t = forest[i]
            tree_canon(t)
            t2 = forest.get_nonlazy_tree(i)
            tree_canon(t2)
            problems.append(("no IndexError", i))
        except IndexError:
            pass
        except Exception as e:     # noqa: BLE001
            problems.append(("wrong exception beyond len", i, type(e).__name__))
    # --- reading does not change the forest -----------------------------
    # counting, indexing, iterating and get_first_tree are read accesses:
    # the object graph and the answers are the same afterwards
    fv2 = ForestView(forest.result)
    if fv2.cyclic or fv2.count() != own or (
            trees is not None and set(fv2.trees(K) or ()) != set(trees)):
        problems.append(("forest changed by read access", own,
                         None if fv2.cyclic else fv2.count()))
    else:
        try:
            if (forest.solutions, len(forest), forest.ambiguities) != (
                    sol, ln, amb_own if ("ambiguities",) not in
                    [p[:1] for p in problems] else forest.ambiguities):
                problems.append(("counts changed by read access",))
        except Exception as e:     # noqa: BLE001
            problems.append(("counting raises after read access",
                             type(e).__name__))
    if own > 1 or an.count >= 2:
        st["nontrivial"] += 1
    if problems:
        kinds = sorted({p[0] for p in problems})
        dup_only = set(kinds) <= {"identical-alternatives",
                                  "solutions!=distinct-trees",
                                  "same tree at two indexes", "ambiguities"}
        ctx.deviation("GLR-DUPLICATE-TREES" if dup_only else None, s,
                      "forest counting/indexing inconsistent: " + ", ".join(kinds),
                      {"problems": problems[:10], "solutions": sol,
                       "distinct": distinct})


# ---------------------------------------------------------------------------
# big-count family: counts beyond 2**64, reference = Catalan-style DP


def big_unit(u):
    import sys
    from pgmc.drive import Monitor, build, grammar_from_string, parse
    from pgmc.findings import Judge
    n = u["ops"]
    gram = ['E: E "+" E | "n";', 'E: E "+" E | E "*" E | "n";',
            # seven operators: more than ten LR states, so that frontier
            # numbers and state ids both reach two digits on these inputs
            'E: E "+" E | E "*" E | E "-" E | E "/" E | E "^" E | E "%" E '
            '| E "&" E | "n";'][u["gram"]]
    nops = [1, 2, 7][u["gram"]]
    mon = Monitor()
    judge = Judge(PROP, KNOWN)
    g = grammar_from_string(gram)
    p = build("glr", g, mon, ws="")
    ops = "+*-/^%&"
    s = "n" + "".join(ops[(i * 3) % nops] + "n" for i in range(n))
    # reference: number of binary trees over n+1 leaves (operators fixed by
    # the input) = Catalan(n)
    cat = [1]
    for i in range(n):
        cat.append(sum(cat[j] * cat[i - j] for j in range(i + 1)))
    want = cat[n]
    o = parse(p, s, mon)
    case = {"grammar": gram, "parser": "glr", "options": {"ws": ""}, "input": s}
    stats = {"evaluations": 1, "nontrivial": 1, "outcomes": {o.kind: 1},
             "grammars": 1}
    if o.kind != "ok":
        judge.deviation(None, "big", gram, s, "parse failed", {"o": o.brief()}, case)
    else:
        f = o.value
        fv = ForestView(f.result)
        probs = []
        if f.solutions != want:
            probs.append(("solutions", str(f.solutions), str(want)))
        if fv.count() != want:
            probs.append(("own-count", str(fv.count()), str(want)))
        if want <= sys.maxsize and len(f) != want:
            probs.append(("len", len(f), want))
        seen = set()
        idxs = list(range(8)) + [want // 2, want - 2, want - 1]
        for i in idxs:
            a = tree_canon(f.get_tree(i))
            b = tree_canon(f.get_nonlazy_tree(i))
            if a != b:
                probs.append(("lazy!=nonlazy", str(i)))
            if a in seen:
                probs.append(("repeated tree", str(i)))
            seen.add(a)
        for i in (want, want + 1):
            try:
                tree_canon(f.get_tree(i))
                probs.append(("no IndexError", str(i)))
            except IndexError:
                pass
        if probs:
            judge.deviation(None, "big", gram, s, "big-count forest inconsistent",
                            {"problems": probs}, case)
    r = judge.result()
    r.update(stats)
    r.update(states=len(mon.states), transitions=mon.transitions,
             traces=mon.traces,
             samples=[{"grammar": gram, "operators": n, "count": str(want)}])
    return r


def run_unit(u):
    if u["space"] == "big":
        return big_unit(u)
    if u["space"] == "long":
        from pgmc import longfam
        return longfam.run(u, PROP, KNOWN, "count")
    if u.get("filter"):
        return glrsweep.sweep(u, PROP, KNOWN, check_case,
                              parser_opts={"dynamic_filter": accept_all})
    return glrsweep.sweep(u, PROP, KNOWN, check_case)


def accept_all(context, from_state, to_state, action, production, subresults):
    return None if action is None else True


def evidence(total, tier, seed, complete):
    cov, a = glrsweep.base_evidence(
        total, plan(tier, seed), complete,
        "every grammar (cyclic ones included, for the LoopError clause) x "
        "{LALR,SLR} x lexeme map x every sentence up to the bound; for each "
        "forest every index < len (all when len <= 300, else the first and "
        "last 64) through forest[i], get_tree, get_nonlazy_tree, iteration, "
        "get_first_tree, and three indexes >= len; plus the big-count family "
        "(10..40 operators, counts up to 2.6e21 against a Catalan DP); "
        "non-trivial = forest with more than one tree or a LoopError")
    cov["loop_errors_confirmed_infinite"] = total.get("loops", 0)
    return cov, a


def replay(rec):
    from pgmc.replay import replay_glr
    return replay_glr(rec, PROP, KNOWN, check_case)
