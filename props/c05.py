"""C05 - table construction terminates and is a faithful LR(1)-family table
(DESIGN.md section 8, shape B: product graph with the canonical LR(1)
automaton, every reachable pair replayed through the real driver)."""
import collections
import functools
import itertools

from parglare.closure import LR_0, LR_1
from parglare.tables import ACCEPT, REDUCE, SHIFT, create_table

from pgmc import drive, spaces
from pgmc.drive import (BudgetExceeded, Monitor, build, grammar_from_string,
                        install_state_budget, parse)
from pgmc.findings import Judge, Known
from pgmc.ref.earley import Earley
from pgmc.ref.lr1 import EOF_, LR1

PROP = "C05"
KNOWN = Known(PROP)
FLOOR = {"quick": 1000, "thorough": 5000}
CHUNK = 60

TWIN_NTS = ("S", "X", "A", "B", "C", "N")
TWIN_TS = ("a", "b", "c", "d", "e", "n", "q", "r")


@functools.lru_cache(maxsize=None)
def twin_grammars():
    """Template family around the classical LR(1)-but-not-LALR(1) core
    (X: a A d | a B e | b B d | b A e with A: c, B: c): states with the same
    kernel that must stay apart, in several contexts, with nullable tails
    whose lookahead arrives only by propagation.  Every combination of the
    listed components is enumerated; the mergeable core is the control."""
    ctxs = [(("X",),), (("X",), ("q", "X", "r")), (("X", "r"), ("q", "X")),
            (("X", "X"),)]
    cores = [(("a", "A", "d"), ("a", "B", "e"), ("b", "B", "d"), ("b", "A", "e")),
             (("a", "A", "d"), ("a", "B", "e"), ("b", "A", "d"), ("b", "B", "e"))]
    thirds = [(), (("a", "C"), ("b", "C")), (("a", "C"),)]
    abs_ = [(("c",), ("c",)), (("c", "N"), ("c", "N")), (("c", "N"), ("c",))]
    cs = [("c", "N"), ("c", "N", "N"), ("c",)]
    ns = [(("n",), ()), ((), ("n",)), (("n", "N"), ())]
    out, seen = [], set()
    for ctx, core, third, ab, c, n, rev in itertools.product(
            ctxs, cores, thirds, abs_, cs, ns, (False, True)):
        xs = list(core) + list(third)
        if rev:
            xs.reverse()
        prods = [("S", r) for r in ctx] + [("X", r) for r in xs]
        prods += [("A", ab[0]), ("B", ab[1])]
        if third:
            prods.append(("C", c))
        if any("N" in r for _, r in prods):
            prods += [("N", r) for r in n]
        key = tuple(prods)
        if key not in seen:
            seen.add(key)
            out.append(key)
    return out


WIDE_TS = tuple("xyabcdefghijklmnopqrstuvwz")


@functools.lru_cache(maxsize=None)
def wide_grammars():
    """one rule with twelve alternatives 'f_i t_i': exactly two start with
    x, exactly two with y, the others with terminals of their own.
    Production ids and state numbers have two digits; the kernels after x
    and after y hold two productions each, for every choice of the four
    positions (2970 grammars)."""
    out = []
    rest = "mnopqrstuvwz"
    for xs in itertools.combinations(range(12), 2):
        for ys in itertools.combinations([i for i in range(12) if i not in xs],
                                         2):
            prods = []
            for i, t in enumerate("abcdefghijkl"):
                f = "x" if i in xs else "y" if i in ys else rest[i]
                prods.append(("S", (f, t)))
            out.append(tuple(prods))
    return out


SPACES = {
    "k3": dict(nts=("S", "A"), ts=("a", "b"), r=2, k=3),
    "k4": dict(nts=("S", "A"), ts=("a", "b"), r=2, k=4),
    "k5": dict(nts=("S", "A"), ts=("a", "b"), r=2, k=5, kmin=5),
    "r3": dict(nts=("S", "A"), ts=("a", "b"), r=3, k=3),
    "n3": dict(nts=("S", "A", "B"), ts=("a", "b"), r=2, k=4),
    "twin": dict(family="twin", nts=TWIN_NTS, ts=TWIN_TS),
    "wide": dict(family="wide", nts=("S",), ts=WIDE_TS),
}


def space_grammars(sp):
    if sp.get("family") == "twin":
        return twin_grammars()
    if sp.get("family") == "wide":
        return wide_grammars()
    return spaces.grammars(**sp)


def plan(tier, seed):
    """(space, window, start in {main, layout})"""
    if tier == "quick":
        return [("k4", None, "main"), ("k3", None, "layout"),
                ("k5", (seed, 60), "main"),
                # three nonterminals: FOLLOW/lookahead fixpoints that need
                # more than two passes only exist from here on
                ("n3", (seed, 40), "main"),
                # same-kernel states that must not be merged (refused LALR
                # merges), lookaheads that arrive only by propagation
                ("twin", None, "main"), ("wide", None, "main"),
                ("r3", None, "kinds")]
    return [("k4", None, "main"), ("k4", None, "layout"),
            ("k5", None, "main"), ("r3", None, "main"), ("n3", None, "main"),
            ("r3", None, "layout"), ("twin", None, "main"),
            ("wide", None, "main")]


def units(tier, seed):
    out = []
    for space, win, start in plan(tier, seed):
        n = len(space_grammars(SPACES[space]))
        idxs = list(range(n)) if win is None else list(
            spaces.window(n, win[0], win[1]))
        chunk = 1500 if start == "kinds" else CHUNK
        for i in range(0, len(idxs), chunk):
            out.append({"space": space, "idx": idxs[i:i + chunk], "start": start})
    return out


def worker_init():
    install_state_budget(400)


LAYOUT_NAMES = {"S": "LAYOUT", "A": "LA", "B": "LB"}


def render(prods, nts, start, lexmap="M0"):
    if start == "main":
        return spaces.render_grammar(prods, nts, lexmap), {n: n for n in nts}
    ren = LAYOUT_NAMES
    p2 = [(ren[l], tuple(ren.get(x, x) for x in r)) for l, r in prods]
    body = spaces.render_grammar(p2, tuple(ren[n] for n in nts), "M0")
    # the main rule uses a terminal of its own
    if "terminals" in body:
        text = 'M: x;\n' + body + 'x: "x";\n'
    else:
        text = 'M: x;\n' + body + 'terminals\nx: "x";\n'
    return text, ren


def tname(sym):
    return EOF_ if sym.name == "STOP" else sym.name


def check_table(judge, stats, mon, g, text, gk, R, ren, kind, start, ordered):
    cfg = f"{kind}/{start}"
    case = {"grammar": text, "tables": kind, "start": start}
    # production id mapping parglare -> reference index
    pmap = {}
    names = {}
    for i, (l, r) in enumerate(R.prods):
        if i:
            names[(ren[l], tuple(ren.get(x, x) for x in r))] = i
    for p in g.productions:
        k = (p.symbol.name, tuple(s.name for s in p.rhs if s.name != "EMPTY"))
        if k in names:
            pmap[p.prod_id] = names[k]
    start_prod = 1 if start == "main" else g.get_production_id("LAYOUT")
    drive.STATE_BUDGET[0] = 8 * len(R.states) + 64
    try:
        with drive.quiet():
            table = create_table(g, LR_1 if kind == "LALR" else LR_0,
                                 start_production=start_prod,
                                 prefer_shifts=False,
                                 prefer_shifts_over_empty=False)
    except BudgetExceeded:
        judge.deviation("TABLE-DIVERGES", cfg, gk, "",
                        "table construction does not terminate (state budget "
                        f"8*{len(R.states)}+64 exceeded)",
                        {"canonical_states": len(R.states)}, case)
        return None
    except Exception as e:    # noqa: BLE001
        judge.deviation(None, cfg, gk, "", "table construction raised",
                        {"type": type(e).__name__, "msg": str(e)[:100]}, case)
        return None
    finally:
        drive.STATE_BUDGET[0] = 400
    stats["tables"] += 1
    inv = {v: k for k, v in ren.items()}
    nts = [n for n in R.nts if n != "S'"]

    seen = {(0, 0): ()}
    work = collections.deque([(0, 0)])
    edges = 0
    problems = []
    while work:
        q, c = work.popleft()
        st = table.states[q]
        pact = collections.defaultdict(set)
        for t, acts in st.actions.items():
            for a in acts:
                if a.action == SHIFT:
                    pact[tname(t)].add(("s",))
                elif a.action == REDUCE:
                    pact[tname(t)].add(("r", pmap.get(a.prod.prod_id,
                                                      -a.prod.prod_id)))
                else:
                    pact[tname(t)].add(("acc",))
        # lower bound: nothing valid is missing
        for t, acts in R.actions[c].items():
            miss = acts - pact.get(t, set())
            if miss:
                problems.append(("missing-action", q, t, sorted(miss)))
        # upper bound (LALR): reductions only on LALR(1) lookaheads
        if kind == "LALR":
            core = R.core[c]
            for t, acts in pact.items():
                for a in acts:
                    if a[0] == "r" and t not in R.lalr.get((core, a[1]), ()):
                        problems.append(("reduce-outside-lalr1", q, t, a[1]))
        for X in sorted(nts) + sorted(R.terms):
            c2 = R.trans.get((c, X))
            if c2 is None:
                continue
            pname = ren.get(X, X)
            q2 = None
            if X in R.terms:
                tsym = g.get_terminal(pname)
                for a in st.actions.get(tsym, []):
                    if a.action == SHIFT:
                        q2 = a.state.state_id
            else:
                nt = g.get_nonterminal(pname)
                if nt in st.gotos:
                    q2 = st.gotos[nt].state_id
            edges += 1
            if q2 is None:
                problems.append(("missing-transition", q, X))
            elif (q2, c2) not in seen:
                seen[(q2, c2)] = seen[(q, c)] + (X,)
                work.append((q2, c2))
    stats["pairs"] += len(seen)
    stats["edges"] += edges

    # conflicts only where LALR(1) has them
    ref_conf = R.lalr_conflicts()
    if kind == "LALR":
        rep = [(cf.state.state_id, tname(cf.term))
               for cf in table.sr_conflicts + table.rr_conflicts]
        if rep and not ref_conf:
            problems.append(("conflict-on-lalr1-grammar", sorted(set(rep))))
        else:
            cores_of = collections.defaultdict(set)
            for (q, c) in seen:
                cores_of[q].add(R.core[c])
            for (q, t) in set(rep):
                if not any((core, t) in ref_conf for core in cores_of.get(q, ())):
                    problems.append(("conflict-where-lalr1-has-none", q, t))
        if ref_conf:
            stats["lalr_conflict_grammars"] += 1
    if problems:
        kinds = sorted({p[0] for p in problems})
        fid = {"reduce-outside-lalr1": "TABLE-LOOKAHEAD-LEAK",
               "conflict-on-lalr1-grammar": "TABLE-LOOKAHEAD-LEAK",
               "conflict-where-lalr1-has-none": "TABLE-LOOKAHEAD-LEAK",
               "missing-action": "TABLE-MISSING-ACTION",
               "missing-transition": "TABLE-MISSING-ACTION"}[kinds[0]]
        judge.deviation(fid, cfg, gk, "", "table differs from the LR(1) family: "
                        + ", ".join(kinds), {"problems": problems[:12]}, case)
    return seen, table


def table_sim(table, g, toks, ren):
    """Trusted mini-recogniser over the *real* table object: a graph
    structured stack saturated to a fixpoint at every input position (every
    applicable reduction is re-run over all paths until no edge is new), so
    it is complete for any table, nullable and cyclic grammars included.
    Returns (accepted, farthest number of tokens shifted, False)."""
    term = {}
    for st in table.states:
        for t in st.actions:
            term[tname(t)] = t
    n = len(toks)
    preds = {(0, 0): set()}          # node -> set of predecessor nodes
    level = {(0, 0)}
    accepted = False
    far = 0
    for pos in range(n + 1):
        la = toks[pos] if pos < n else EOF_
        tsym = term.get(la)
        if tsym is None or not level:
            break
        changed = True
        while changed:
            changed = False
            for node in list(level):
                for a in table.states[node[0]].actions.get(tsym, ()):
                    if a.action == REDUCE:
                        k = len(a.prod.rhs)
                        roots = {node}
                        for _ in range(k):
                            roots = {r for x in roots for r in preds[x]}
                        for r in roots:
                            gt = table.states[r[0]].gotos.get(a.prod.symbol)
                            if gt is None:
                                continue
                            tgt = (gt.state_id, pos)
                            if tgt not in preds:
                                preds[tgt] = set()
                                level.add(tgt)
                                changed = True
                            if r not in preds[tgt]:
                                preds[tgt].add(r)
                                changed = True
                    elif a.action == ACCEPT:
                        accepted = True
        nxt = set()
        for node in level:
            for a in table.states[node[0]].actions.get(tsym, ()):
                if a.action == SHIFT:
                    tgt = (a.state.state_id, pos + 1)
                    preds.setdefault(tgt, set()).add(node)
                    nxt.add(tgt)
        if nxt:
            far = pos + 1
        level = nxt
    return accepted, far, False


def bind_driver(judge, stats, mon, g, table, text, gk, R, ren, kind, seen,
                earley):
    """every reachable pair is turned into inputs: its access string
    (shortest yields) followed by every terminal / end of input.  Judged for
    C05: the real table, run by a trivial exhaustive interpreter, accepts
    exactly the sentences and gets stuck exactly at the first non-viable
    token (Earley oracle).  The real GLR driver is run on the same inputs;
    where *it* disagrees with the table the defect is the driver's (C01/C10
    territory) and is only counted here."""
    cfg = f"{kind}/driver"
    ys = R.shortest_yields()
    try:
        p = build("glr", g, mon, tag=(gk, kind), tables=kind, ws="")
    except (Exception, BudgetExceeded) as e:   # noqa: BLE001
        judge.deviation(None, cfg, gk, "", "GLRParser construction failed",
                        {"type": type(e).__name__}, {"grammar": text})
        return
    done = set()
    for (q, c), path in seen.items():
        w = tuple(t for X in path for t in ys[X])
        for t in list(R.terms) + [None]:
            toks = w + ((t,) if t else ())
            if toks in done or len(toks) > 12:
                continue
            done.add(toks)
            s = "".join(toks)
            sentence, viable, expected, _ = earley.analyse(list(toks))
            acc, far, pruned = table_sim(table, g, toks, {})
            stats["table_runs"] += 1
            case = {"grammar": text, "tables": kind, "input": s}
            if acc != sentence and not (pruned and not acc):
                judge.deviation("TABLE-WRONG-LANGUAGE", cfg, gk, s,
                                "the table accepts a non-sentence or cannot "
                                "accept a sentence",
                                {"table_accepts": acc, "sentence": sentence}, case)
            elif not sentence and far != viable and not pruned:
                judge.deviation("TABLE-ERROR-POSITION", cfg, gk, s,
                                "the table gets stuck at another token than "
                                "the first non-viable one",
                                {"far": far, "viable": viable}, case)
            if pruned:
                stats["table_runs_pruned"] += 1
            o = parse(p, s, mon)
            stats["driver_runs"] += 1
            if sentence:
                if o.kind != "ok":
                    stats["driver_disagrees_with_table"] += 1
            elif o.kind == "syntax":
                if o.exc.location.start_position != viable:
                    stats["driver_disagrees_with_table"] += 1
            else:
                stats["driver_disagrees_with_table"] += 1


def kinds_on_one_grammar(judge, stats, text, gk):
    """an SLR table and then a LALR table (and the reverse) built on one
    Grammar object must equal the tables built on fresh objects: FIRST sets
    are cached on the grammar, FOLLOW sets are derived from them"""
    from parglare.tables.persist import table_to_serializable
    from pgmc.findings import digest

    def ser(gr, its):
        with drive.quiet():
            t = create_table(gr, its, prefer_shifts=False,
                             prefer_shifts_over_empty=False)
        return digest(table_to_serializable(t))
    try:
        want = {"LALR": ser(grammar_from_string(text), LR_1),
                "SLR": ser(grammar_from_string(text), LR_0)}
        g1 = grammar_from_string(text)
        got = {"SLR first": ser(g1, LR_0), "LALR after SLR": ser(g1, LR_1),
               "SLR again": ser(g1, LR_0)}
        g2 = grammar_from_string(text)
        got["LALR first"] = ser(g2, LR_1)
        got["SLR after LALR"] = ser(g2, LR_0)
    except BudgetExceeded:
        return
    stats["shared_grammar_tables"] += 5
    bad = sorted(k for k in got
                 if got[k] != want["LALR" if k.startswith("LALR") else "SLR"])
    if bad:
        judge.deviation(None, "shared/kinds", gk, "",
                        "a table depends on the tables built before it on the "
                        "same Grammar object", {"differs": bad},
                        {"grammar": text})


def shared_grammar(judge, stats, g, text, gk, kind):
    """Parser builds the LAYOUT table and then the main table on the same
    Grammar object: a table must not depend on tables built before it
    (g already carries the LAYOUT table built by check_table)"""
    from parglare.tables.persist import table_to_serializable
    from pgmc.findings import digest
    its = LR_1 if kind == "LALR" else LR_0

    def ser(gr, start):
        with drive.quiet():
            t = create_table(gr, its, start_production=start,
                             prefer_shifts=False, prefer_shifts_over_empty=False)
        return digest(table_to_serializable(t))
    try:
        lay = g.get_production_id("LAYOUT")
        got = {"main after layout": ser(g, 1), "layout again": ser(g, lay)}
        g2 = grammar_from_string(text)
        want = {"main after layout": ser(g2, 1)}
        g3 = grammar_from_string(text)
        want["layout again"] = ser(g3, lay)
        # and in the other order
        got["layout after main"] = ser(g2, lay)
        want["layout after main"] = want["layout again"]
    except BudgetExceeded:
        return
    stats["shared_grammar_tables"] += 3
    bad = sorted(k for k in got if got[k] != want[k])
    if bad:
        judge.deviation(None, f"{kind}/shared", gk, "",
                        "a table depends on the tables built before it on the "
                        "same Grammar object", {"differs": bad},
                        {"grammar": text, "tables": kind})


def kinds_unit(u):
    """only the shared-Grammar comparison (SLR and LALR tables on one
    object), on every grammar of the space that has a right-hand side of
    three symbols and an EMPTY production"""
    sp = SPACES[u["space"]]
    nts = sp["nts"]
    gs = space_grammars(sp)
    judge = Judge(PROP, KNOWN)
    stats = collections.Counter()
    for gi in u["idx"]:
        prods = gs[gi]
        if not (any(len(r) == 3 for _, r in prods)
                and any(len(r) == 0 for _, r in prods)):
            continue
        text, _ = render(prods, nts, "main")
        kinds_on_one_grammar(judge, stats, text, spaces.gkey(prods, nts))
        stats["grammars"] += 1
        stats["nontrivial"] += 1
        stats["tables"] += 5
    r = judge.result()
    r.update(stats)
    r.update(samples=[], glr_states=0, glr_transitions=0)
    return r


def run_unit(u):
    if u["start"] == "kinds":
        return kinds_unit(u)
    sp = SPACES[u["space"]]
    nts = sp["nts"]
    gs = space_grammars(sp)
    lexmap = {t: ("s", t) for t in sp["ts"]}
    mon = Monitor()
    judge = Judge(PROP, KNOWN)
    stats = collections.Counter()
    samples = []
    for gi in u["idx"]:
        prods = gs[gi]
        gk = spaces.gkey(prods, nts)
        ordered = spaces.ordered_prods(prods, nts)
        text, ren = render(prods, nts, u["start"], lexmap)
        R = LR1(ordered, nts[0], sp["ts"])
        earley = Earley(ordered, nts[0])
        stats["grammars"] += 1
        for kind in ("LALR", "SLR"):
            try:
                g = grammar_from_string(text)
            except Exception as e:   # noqa: BLE001
                judge.deviation(None, "grammar", gk, "",
                                "Grammar.from_string failed",
                                {"type": type(e).__name__, "msg": str(e)[:100]},
                                {"grammar": text})
                break
            seen = check_table(judge, stats, mon, g, text, gk, R, ren, kind,
                               u["start"], ordered)
            if seen is not None and u["start"] == "main":
                if kind == "SLR":
                    kinds_on_one_grammar(judge, stats, text, gk)
                seen, table = seen
                if u["space"] != "wide":
                    # (the wide family is about the table's item sets; its
                    # language is finite and trivial)
                    bind_driver(judge, stats, mon, grammar_from_string(text),
                                table, text, gk, R, ren, kind, seen, earley)
            elif seen is not None:
                seen = seen[0]
                shared_grammar(judge, stats, g, text, gk, kind)
            if seen is not None and len(seen) > 1:
                stats["nontrivial"] += 1
        if not samples:
            samples.append({"grammar": gk, "start": u["start"],
                            "canonical_states": len(R.states)})
    r = judge.result()
    r.update(stats)
    r.update(samples=samples, glr_states=len(mon.states),
             glr_transitions=mon.transitions)
    return r


def evidence(total, tier, seed, complete):
    cov = {
        "states": total.get("pairs", 0),
        "transitions": total.get("edges", 0),
        "traces_validated_against_impl": total.get("table_runs", 0),
        "real_glr_driver_runs_on_the_same_inputs": total.get("driver_runs", 0),
        "glr_driver_disagrees_with_its_table": total.get(
            "driver_disagrees_with_table", 0),
        "table_runs_pruned_by_stack_bound": total.get("table_runs_pruned", 0),
        "evaluations": total.get("tables", 0),
        "distinct_nontrivial": total.get("nontrivial", 0),
        "rule": "every grammar of the listed spaces x {LALR,SLR} x start "
                "production; states = reachable pairs (parglare state, canonical "
                "LR(1) state), transitions = product edges over all grammar "
                "symbols; traces = access string of every pair + every terminal, "
                "run on the real table object by an exhaustive stack "
                "interpreter and compared with an Earley oracle (the real GLR "
                "driver is run on the same inputs; its disagreements with its "
                "own table are C01/C10 matters and are only counted); non-trivial = table with more than one reachable pair",
        "samples": total.get("samples", [])[:6],
        "exhaustive": bool(complete),
        "domain": [list(map(str, p)) for p in plan(tier, seed)],
        "grammars": total.get("grammars", 0),
        "tables": total.get("tables", 0),
        "lalr_conflict_grammars_x_tables": total.get("lalr_conflict_grammars", 0),
        "driver_gss_states": total.get("glr_states", 0),
    }
    assumptions = [
        "reference: canonical LR(1) item sets built from the textbook "
        "definitions (pgmc/ref/lr1.py); LALR(1) lookahead = union over the core class",
        "divergence decided by a state budget of 8*|canonical LR(1) states|+64",
        "the product graph covers every viable prefix of every length for the "
        "enumerated grammars; the grammar-size bound remains",
        "the quantifier's 'larger grammars at random' is replaced by a "
        "seed-rotated, fully enumerated window of the k=5 space",
    ]
    return cov, assumptions


def replay(rec):
    raise NotImplementedError
