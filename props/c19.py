"""C19 - string terminals match their literal text; KEYWORD adds whole-word
matching (shape A)."""
import collections
import itertools
import re

from pgmc import spaces
from pgmc.drive import (BudgetExceeded, Monitor, build, grammar_from_string,
                        install_state_budget, parse, tree_nodes)
from pgmc.findings import Judge, Known

PROP = "C19"
KNOWN = Known(PROP)
FLOOR = {"quick": 500, "thorough": 2000}
CH = ["a", "A", "b", "1", ".", "|", "+", "*", "(", ")", "[", "]", "\\", "'", '"', " "]
NAMES_AS_TEXT = ["S", "E", "any", "EMPTY", "STOP", "KEYWORD", "LAYOUT",
                 "terminals", "import", "t0"]
RESERVED = {"EMPTY", "STOP"}
KWREGEX = [r"\w+", r"[a-z]+", r"[\w+.]+", r"[^ ]+"]
KWCH = ["a", "b", "1", "+", ".", " "]


def texts(n):
    out = []
    for k in range(1, n + 1):
        out += ["".join(t) for t in itertools.product(CH, repeat=k)]
    return out + NAMES_AS_TEXT


def kwtexts(n):
    out = []
    for k in range(1, n + 1):
        out += ["".join(t) for t in itertools.product(KWCH, repeat=k)]
    return out


def quote(t):
    """(quoted form, simple?)  simple = no escape sequence is needed"""
    if "\\" not in t:
        if '"' not in t:
            return f'"{t}"', True
        if "'" not in t:
            return f"'{t}'", True
    q = t.replace("\\", "\\\\").replace('"', '\\"')
    return f'"{q}"', False


def plan(tier, seed):
    if tier == "quick":
        return [dict(fam="lit", n=2, nmax=4),
                dict(fam="lit", n=3, nmax=3, win=(seed, 12)),
                dict(fam="kw", n=3, nmax=4), dict(fam="kw2", n=3, nmax=3)]
    return [dict(fam="lit", n=3, nmax=4), dict(fam="kw", n=3, nmax=5),
            dict(fam="kw2", n=3, nmax=4)]


def units(tier, seed):
    out = []
    for row in plan(tier, seed):
        ts = texts(row["n"]) if row["fam"] == "lit" else \
            kw2_pairs(row["n"]) if row["fam"] == "kw2" else kwtexts(row["n"])
        win = row.get("win")
        idxs = list(range(len(ts))) if win is None else list(
            spaces.window(len(ts), win[0], win[1]))
        for i in range(0, len(idxs), 8):
            out.append(dict(fam=row["fam"], n=row["n"], nmax=row["nmax"],
                            idx=idxs[i:i + 8]))
    return out


def worker_init():
    install_state_budget(600)


def leaves_of(tree):
    return [(n.symbol.name, n.value) for n, _ in tree_nodes(tree) if n.is_term()]


def scan_lit(t, s, ic):
    """reference: literal matching, string over regex"""
    out = []
    i = 0
    tl = t.lower() if ic else t
    while i < len(s):
        seg = s[i:i + len(t)]
        if (seg.lower() if ic else seg) == tl:
            # under ignore_case the token's value is the terminal's declared
            # spelling (StringRecognizer returns its own text)
            out.append(("T", t))
            i += len(t)
        elif s[i] != "x":
            out.append(("any", s[i]))
            i += 1
        else:
            return out, i
    return out, None


def lit_unit(u):
    mon = Monitor()
    judge = Judge(PROP, KNOWN)
    st = collections.Counter()
    ts = texts(u["n"])
    samples = []
    for ti in u["idx"]:
        t = ts[ti]
        q, simple = quote(t)
        inline = f"S: E*;\nE: {q} | any;\nterminals\nany: /[^x]/;\n"
        declared = f"S: E*;\nE: t0 | any;\nterminals\nt0: {q};\nany: /[^x]/;\n"
        cfg = "lit"
        for ic in (False, True):
            res = {}
            for form, text in (("inline", inline), ("declared", declared)):
                try:
                    g = grammar_from_string(text, ignore_case=ic)
                    res[form] = build("lr", g, mon, tag=(ti, form, ic), ws="",
                                      build_tree=True)
                except BudgetExceeded:
                    res[form] = "budget"
                except Exception as e:       # noqa: BLE001
                    res[form] = f"{type(e).__name__}"
            ok = {f: not isinstance(p, str) for f, p in res.items()}
            case = {"grammar": inline, "declared_form": declared, "text": t,
                    "ignore_case": ic, "parser": "lr",
                    "options": {"ws": "", "build_tree": True}}
            if ok["inline"] != ok["declared"]:
                judge.deviation("INLINE-NAME-COLLISION" if t in NAMES_AS_TEXT
                                else "INLINE-VS-DECLARED", cfg, t, f"ic={int(ic)}",
                                "inline string is accepted/rejected differently "
                                "from the same text declared in the terminals "
                                "section",
                                {k: (v if isinstance(v, str) else "constructs")
                                 for k, v in res.items()}, case)
            elif not ok["inline"] and t not in RESERVED and t not in (
                    "t0", "any"):
                judge.deviation("STRING-REJECTED", cfg, t, f"ic={int(ic)}",
                                "a string terminal text is rejected by the "
                                "grammar language",
                                {k: (v if isinstance(v, str) else "constructs")
                                 for k, v in res.items()}, case)
            if not simple:
                st["escape_family_consistency_only"] += 1
            alpha = "".join(sorted(set(t) | {"a", "b"}))[:5]
            inputs = spaces.strings(alpha, u["nmax"] if len(alpha) <= 3 else 3)
            for form in ("inline", "declared"):
                p = res[form]
                if isinstance(p, str):
                    continue
                for s in inputs:
                    o = parse(p, s, mon)
                    st["evaluations"] += 1
                    if o.kind == "ok":
                        got = [("T" if n != "any" else n, v)
                               for n, v in leaves_of(o.value)] \
                            if s else []
                    else:
                        got = o.brief()
                    if t in s or (ic and t.lower() in s.lower()):
                        st["nontrivial"] += 1
                    if not simple:
                        res.setdefault("obs", {}).setdefault(s, {})[form] = got
                        continue
                    want, err = scan_lit(t, s, ic)
                    if err is not None:
                        continue
                    if got != want:
                        judge.deviation(
                            "STRING-NOT-LITERAL", cfg, t, s,
                            "string terminal does not match its literal text",
                            {"got": str(got)[:200], "want": str(want)[:200],
                             "form": form}, dict(case, input=s))
            for s, obs in res.get("obs", {}).items():
                if len(obs) == 2 and obs["inline"] != obs["declared"]:
                    judge.deviation("INLINE-VS-DECLARED", cfg, t, s,
                                    "inline and declared form of the same "
                                    "quoted text tokenise differently",
                                    {k: str(v)[:120] for k, v in obs.items()},
                                    dict(case, input=s))
        if not samples:
            samples.append({"text": t, "inline": inline})
    r = judge.result()
    r.update(st)
    r.update(states=len(mon.states), transitions=mon.transitions,
             traces=mon.traces, samples=samples)
    return r


ID = "[ab1]+"


def scan_kw(t, kw, s, ic):
    """reference scanner: T literal (+ word boundary rule when the KEYWORD
    regex matches the whole text), id regex, any; T and id priority 10 with
    string/keyword over regex, any priority 5"""
    flags = re.IGNORECASE if ic else 0
    m = re.compile(kw, flags | re.VERBOSE | re.MULTILINE).match(t)
    is_kw = bool(m and m.group() == t)
    idr = re.compile(ID, flags)
    out = []
    i = 0
    while i < len(s):
        seg = s[i:i + len(t)]
        tm = (seg.lower() == t.lower()) if ic else (seg == t)
        if tm and is_kw:
            before = s[i - 1] if i > 0 else ""
            after = s[i + len(t):i + len(t) + 1]
            if re.match(r"\w", before or " ") or re.match(r"\w", after or " "):
                tm = False
        if tm:
            out.append(("T", t if not is_kw else seg))
            i += len(t)
            continue
        mm = idr.match(s, i)
        if mm:
            out.append(("id", mm.group()))
            i = mm.end()
            continue
        if s[i] != "x":
            out.append(("any", s[i]))
            i += 1
            continue
        return out, i
    return out, None


def kw_unit(u):
    mon = Monitor()
    judge = Judge(PROP, KNOWN)
    st = collections.Counter()
    ts = kwtexts(u["n"])
    samples = []
    for ti in u["idx"]:
        t = ts[ti]
        q, _ = quote(t)
        for kw in KWREGEX:
            text = (f"S: E*;\nE: {q} | id | any;\nterminals\n"
                    f"KEYWORD: /{kw}/;\nid: /{ID}/;\nany: /[^x]/ {{5}};\n")
            cfg = "kw"
            for ic in (False, True):
                case = {"grammar": text, "text": t, "keyword_regex": kw,
                        "ignore_case": ic, "parser": "lr",
                        "options": {"ws": "", "build_tree": True}}
                try:
                    g = grammar_from_string(text, ignore_case=ic)
                    p = build("lr", g, mon, tag=(ti, kw, ic), ws="",
                              build_tree=True)
                except (Exception, BudgetExceeded) as e:    # noqa: BLE001
                    judge.deviation("KEYWORD-GRAMMAR-REJECTED", cfg, t, kw,
                                    "grammar with a KEYWORD rule and this "
                                    "string terminal is rejected",
                                    {"type": type(e).__name__,
                                     "m": str(e)[:80]}, case)
                    continue
                alpha = "".join(sorted(set(t) | {"a", " "}))[:4]
                for s in spaces.strings(alpha, u["nmax"]):
                    want, err = scan_kw(t, kw, s, ic)
                    if err is not None:
                        continue
                    o = parse(p, s, mon)
                    st["evaluations"] += 1
                    if t in s:
                        st["nontrivial"] += 1
                    if o.kind == "ok":
                        got = [("T" if n == t else n, v)
                               for n, v in leaves_of(o.value)] if s else []
                        # a keyword terminal returns the matched text
                    else:
                        got = o.brief()
                    w2 = [(n, v) for n, v in want]
                    if got != w2:
                        judge.deviation(
                            "KEYWORD-MATCHING", cfg, f"{t}|{kw}|ic={int(ic)}", s,
                            "token sequence differs from literal matching "
                            "with the whole-word rule",
                            {"got": str(got)[:200], "want": str(w2)[:200]},
                            dict(case, input=s))
        if not samples:
            samples.append({"text": t, "keyword_regexes": KWREGEX})
    r = judge.result()
    r.update(st)
    r.update(states=len(mon.states), transitions=mon.transitions,
             traces=mon.traces, samples=samples)
    return r


def kw2_pairs(n):
    """pairs (t1, t2) of texts where t1 is a proper prefix of t2"""
    out = []
    for t2 in kwtexts(n):
        for k in range(1, len(t2)):
            out.append((t2[:k], t2))
    return out


def scan_kw2(ts, kw, s, ic):
    """two string terminals next to id / any: string and keyword matches
    first, the longest of them wins"""
    flags = re.IGNORECASE if ic else 0
    kwr = re.compile(kw, flags | re.VERBOSE | re.MULTILINE)
    idr = re.compile(ID, flags)
    out = []
    i = 0
    while i < len(s):
        cands = []
        for t in ts:
            seg = s[i:i + len(t)]
            if not ((seg.lower() == t.lower()) if ic else (seg == t)):
                continue
            m = kwr.match(t)
            if m and m.group() == t:
                before = s[i - 1] if i > 0 else " "
                after = s[i + len(t):i + len(t) + 1] or " "
                if re.match(r"\w", before) or re.match(r"\w", after):
                    continue
                cands.append((t, seg))
            else:
                cands.append((t, t))
        if cands:
            t, v = max(cands, key=lambda c: len(c[0]))
            out.append((t, v))
            i += len(t)
            continue
        mm = idr.match(s, i)
        if mm:
            out.append(("id", mm.group()))
            i = mm.end()
            continue
        if s[i] != "x":
            out.append(("any", s[i]))
            i += 1
            continue
        return out, i
    return out, None


def kw2_unit(u):
    mon = Monitor()
    judge = Judge(PROP, KNOWN)
    st = collections.Counter()
    pairs = kw2_pairs(u["n"])
    samples = []
    for pi in u["idx"]:
        t1, t2 = pairs[pi]
        q1, _ = quote(t1)
        q2, _ = quote(t2)
        forms = []
        for kw in KWREGEX:
            tail = f"KEYWORD: /{kw}/;\nid: /{ID}/;\nany: /[^x]/ {{5}};\n"
            forms.append((kw, "inline", {},
                          f"S: E*;\nE: {q1} | {q2} | id | any;\nterminals\n"
                          + tail))
            # declared, with rule names whose lengths contradict the texts'
            for n1, n2 in (("SHORT_TEXT_LONG_NAME", "L"), ("A", "LONGER_NAME"),
                           ("T1", "T0")):
                forms.append((kw, f"declared:{n1},{n2}", {n1: t1, n2: t2},
                              f"S: E*;\nE: {n1} | {n2} | id | any;\nterminals\n"
                              f"{n1}: {q1};\n{n2}: {q2};\n" + tail))
        for kw, form, names, text in forms:
            for ic in (False, True):
                case = {"grammar": text, "text": [t1, t2], "keyword_regex": kw,
                        "form": form,
                        "ignore_case": ic, "parser": "lr",
                        "options": {"ws": "", "build_tree": True}}
                try:
                    g = grammar_from_string(text, ignore_case=ic)
                    p = build("lr", g, mon, tag=(pi, kw, ic, form), ws="",
                              build_tree=True)
                except (Exception, BudgetExceeded) as e:    # noqa: BLE001
                    judge.deviation("KEYWORD-GRAMMAR-REJECTED", "kw2",
                                    f"{t1}|{t2}", kw, "grammar rejected",
                                    {"type": type(e).__name__}, case)
                    continue
                alpha = "".join(sorted(set(t2) | {"a"}))[:4]
                for s_ in spaces.strings(alpha, u["nmax"]):
                    want, err = scan_kw2((t1, t2), kw, s_, ic)
                    if err is not None:
                        continue
                    o = parse(p, s_, mon)
                    st["evaluations"] += 1
                    if t1 in s_:
                        st["nontrivial"] += 1
                    got = ([(names.get(n, n), v)
                            for n, v in leaves_of(o.value)] if s_ else []) \
                        if o.kind == "ok" else o.brief()
                    if got != want:
                        judge.deviation(
                            "KEYWORD-MATCHING", "kw2",
                            f"{t1}|{t2}|{kw}|ic={int(ic)}|{form}", s_,
                            "token sequence differs from literal matching "
                            "with the whole-word rule and longest string match",
                            {"got": str(got)[:200], "want": str(want)[:200]},
                            dict(case, input=s_))
        if not samples:
            samples.append({"texts": [t1, t2]})
    r = judge.result()
    r.update(st)
    r.update(states=len(mon.states), transitions=mon.transitions,
             traces=mon.traces, samples=samples)
    return r


def run_unit(u):
    if u["fam"] == "kw2":
        return kw2_unit(u)
    return lit_unit(u) if u["fam"] == "lit" else kw_unit(u)


def evidence(total, tier, seed, complete):
    cov = {
        "states": total.get("states", 0),
        "transitions": total.get("transitions", 0),
        "traces_validated_against_impl": total.get("traces", 0),
        "evaluations": total.get("evaluations", 0),
        "distinct_nontrivial": total.get("nontrivial", 0),
        "rule": "family 1: every text of length 1-2 (3) over "
                "a b 1 . | + * ( ) [ ] \\ ' \" space and names of other "
                "symbols / reserved words, written inline and declared, "
                "ignore_case off/on, every input <= 4 over the text's "
                "characters + a, b: construction consistency and token "
                "sequence vs literal matching (texts needing escape sequences: "
                "inline/declared consistency only); family 2: every text <= 2 "
                "(3) over a b 1 + . space x 4 KEYWORD regexes next to an "
                "identifier-like regex, ignore_case off/on: token sequence vs "
                "literal matching + word-boundary rule + string precedence; "
                "non-trivial = input containing the text",
        "samples": total.get("samples", [])[:3],
        "exhaustive": bool(complete),
        "domain": [{k: str(v) for k, v in row.items()}
                   for row in plan(tier, seed)],
        "escape_family_consistency_only":
            total.get("escape_family_consistency_only", 0),
    }
    return cov, ["reference scanner in props/c19.py (literal startswith, "
                 "word-boundary look-around, string over regex)"]


def replay(rec):
    return False, "run the stand-alone script stored in the replay file"
