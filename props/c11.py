"""C11 - error recovery terminates, reports disjoint spans and parses the
rest (shape A)."""
import collections

from parglare import Token

from pgmc import spaces
from pgmc.drive import (BudgetExceeded, ForestView, Monitor, build,
                        grammar_from_string, install_state_budget, parse,
                        tree_nodes)
from pgmc.findings import Judge, Known
from pgmc.ref.cfg import CharRef, Matchers

PROP = "C11"
KNOWN = Known(PROP)
FLOOR = {"quick": 1000, "thorough": 5000}
SPACES = {
    "k3": dict(nts=("S", "A"), ts=("a", "b"), r=2, k=3),
    "k4only": dict(nts=("S", "A"), ts=("a", "b"), r=2, k=4, kmin=4),
}
WS = " "
# medium grammars in which GLR has several heads when the first error
# occurs (reduce/reduce conflict resolved by a later token; lookaheads that
# are legal only because of LALR state merging), so that heads recover
# differently and a second error follows without a shift in between
FIXED = [
    [("S", ("X", "c", "q")), ("S", ("Y", "C", "r")), ("S", ("m", "C", "t")),
     ("X", ("k",)), ("Y", ("k",)), ("C", ("c",))],
    [("S", ("X", "c", "q")), ("S", ("Y", "C", "r")), ("S", ("Y", "C", "r", "S")),
     ("X", ("k",)), ("Y", ("k",)), ("C", ("c",)), ("C", ("c", "c"))],
]
FIXED_NTS = ("S", "X", "Y", "C")
spaces.LEXMAPS["MK"] = {t: ("s", t) for t in "kcqrmt"}


def space_list(name):
    if name == "fixed":
        return [tuple(g) for g in FIXED]
    return spaces.grammars(**SPACES[name])


def strat_skip_one(context, error, default):
    if context.position < len(context.input_str):
        context.position += 1
        context.token_ahead = None
        return True
    return False


def strat_default(context, error, default):
    return default(context)


def strat_false(context, error, default):
    return False


def make_inject():
    seen = set()

    def inject(context, error, default):
        # at most one zero-length token per input position, then give up
        if context.position in seen:
            return False
        seen.add(context.position)
        syms = sorted((s for s in context.state.actions.keys()
                       if s.name not in ("STOP", "EMPTY")), key=lambda s: s.name)
        if not syms:
            return False
        context.token_ahead = Token(syms[0], "", position=context.position,
                                    length=0)
        return True
    inject.reset = seen.clear
    return inject


STRATEGIES = ["default", "custom-default", "skip-one", "inject", "false"]


def strategy(name):
    return {"default": True, "custom-default": strat_default,
            "skip-one": strat_skip_one, "inject": make_inject(),
            "false": strat_false}[name]


def plan(tier, seed):
    if tier == "quick":
        return [dict(space="k3", lexmap="M0", strategies=["default"],
                     alpha="abx ", nmax=4, win=(seed, 2)),
                dict(space="k3", lexmap="M0",
                     strategies=["custom-default", "skip-one", "inject", "false"],
                     alpha="abx", nmax=3, win=(seed, 4)),
                dict(space="k3", lexmap="M1", strategies=["default"],
                     alpha="abx", nmax=4, win=(seed, 4)),
                dict(space="k3", lexmap="M3", strategies=["default"],
                     alpha="abx", nmax=4, win=(seed, 4)),
                dict(space="k3", lexmap="M0",
                     strategies=["default", "skip-one"],
                     alpha="abx ", nmax=4, win=(seed, 8), layout_rule=True),
                dict(space="fixed", lexmap="MK", strategies=["default"],
                     alpha="kcqrt$", nmax=5)]
    return [dict(space="k3", lexmap="M0", strategies=["default"],
                 alpha="abx ", nmax=5),
            dict(space="k3", lexmap="M0",
                 strategies=["custom-default", "skip-one", "inject", "false"],
                 alpha="abx ", nmax=4),
            dict(space="k3", lexmap="M1", strategies=STRATEGIES, alpha="abx",
                 nmax=4),
            dict(space="k3", lexmap="M3", strategies=STRATEGIES, alpha="abx",
                 nmax=4),
            dict(space="k4only", lexmap="M0", strategies=["default"],
                 alpha="abx ", nmax=4, win=(0, 4)),
            dict(space="k3", lexmap="M0", strategies=STRATEGIES,
                 alpha="abx ", nmax=4, layout_rule=True),
            dict(space="fixed", lexmap="MK", strategies=STRATEGIES,
                 alpha="kcqrmt$", nmax=5)]


def units(tier, seed):
    out = []
    for row in plan(tier, seed):
        n = len(space_list(row["space"]))
        win = row.get("win")
        idxs = list(range(n)) if win is None else list(
            spaces.window(n, win[0], win[1]))
        for i in range(0, len(idxs), 25):
            u = {k: v for k, v in row.items() if k != "win"}
            u["idx"] = idxs[i:i + 25]
            out.append(u)
    return out


def worker_init():
    install_state_budget(600)


def spans_ok(errors, n):
    probs = []
    prev_end = None
    for e in errors:
        st, en = e.location.start_position, e.location.end_position
        if not (isinstance(st, int) and isinstance(en, int)):
            probs.append(("non-integer span", st, en))
            continue
        if not (0 <= st <= en <= n):
            probs.append(("span out of bounds or start > end", st, en))
        if prev_end is not None and st < prev_end:
            probs.append(("spans overlap or out of order", st, prev_end))
        prev_end = max(prev_end or 0, en)
    return probs


def tree_valid(root, s, start, matchers):
    """valid derivation whose leaves are tokens of the input in input order"""
    probs = []
    if root.symbol.name != start:
        probs.append(("root is not the start symbol", root.symbol.name))
    leaves = []
    for node, _ in tree_nodes(root):
        if node.is_term():
            leaves.append(node)
            continue
        rhs = [x.name for x in node.production.rhs if x.name != "EMPTY"]
        if [c.symbol.name for c in node] != rhs or \
                node.production.symbol.name != node.symbol.name:
            probs.append(("node does not apply its production", node.symbol.name))
    prev = 0
    for lf in leaves:
        a, b = lf.start_position, lf.end_position
        if not (isinstance(a, int) and isinstance(b, int)) or a < prev or \
                s[a:b] != lf.value or (b > a and matchers.match(
                    lf.symbol.name, s, a) != b):
            probs.append(("leaf is not a token of the input in order",
                          lf.symbol.name, a, b))
        else:
            prev = b
    return probs, leaves


def run_unit(u):
    nts = FIXED_NTS if u["space"] == "fixed" else SPACES[u["space"]]["nts"]
    gs = space_list(u["space"])
    lm = u["lexmap"]
    lexmap = spaces.LEXMAPS[lm]
    inputs = spaces.strings(u["alpha"], u["nmax"])
    mon = Monitor()
    judge = Judge(PROP, KNOWN)
    st = collections.Counter()
    samples = []
    for gi in u["idx"]:
        prods = gs[gi]
        gk = spaces.gkey(prods, nts)
        ordered = spaces.ordered_prods(prods, nts)
        text = spaces.render_grammar(prods, nts, lm)
        pkw = {"ws": WS}
        if u.get("layout_rule"):
            # the same layout given by a LAYOUT rule: the sub-parser is run
            # from the position recovery resumes at
            rules, terms = "LAYOUT: WSL | EMPTY;\n", "WSL: /[ \\n]+/;\n"
            if "terminals" in text:
                head, _, tail = text.partition("terminals\n")
                text = head + rules + "terminals\n" + tail + terms
            else:
                text = text + rules + "terminals\n" + terms
            pkw = {}
        used = {x for _, r in ordered for x in r if x in lexmap}
        matchers = Matchers({t: lexmap[t] for t in used})
        ref = CharRef(ordered, nts[0], lexmap, ws=WS)
        for sname in u["strategies"]:
            strat = strategy(sname)
            for kind in ("lr", "glr"):
                cfg = f"{lm}/{sname}/{kind}" + (
                    "/layout-rule" if u.get("layout_rule") else "")
                try:
                    kw = {"build_tree": True} if kind == "lr" else {}
                    kw.update(pkw)
                    p = build(kind, grammar_from_string(text), mon,
                              tag=(gi, sname, kind),
                              error_recovery=strat, **kw)
                    plain = build(kind, grammar_from_string(text), mon,
                                  tag=(gi, sname, kind, "p"), **kw)
                except (Exception, BudgetExceeded):    # noqa: BLE001
                    continue
                for s in inputs:
                    if hasattr(strat, "reset"):
                        strat.reset()
                    o = parse(p, s, mon)
                    st["evaluations"] += 1
                    case = {"grammar": text, "parser": kind, "input": s,
                            "options": {"ws": WS, "error_recovery": sname}}
                    probs = []
                    if o.kind == "budget":
                        probs.append(("does not terminate (step budget)",))
                    elif o.kind == "syntax":
                        pass
                    elif o.kind == "ok":
                        errors = list(getattr(p, "errors", []) or [])
                        probs += spans_ok(errors, len(s))
                        if errors:
                            st["nontrivial"] += 1
                        # "sentence" as the same parser without recovery sees
                        # it: an LR parser with statically resolved conflicts
                        # may reject sentences of the grammar (C04 promises
                        # soundness only), and recovery may then step in
                        o2 = parse(plain, s, mon)
                        if o2.kind == "ok":
                            if errors:
                                probs.append(("errors recorded for an input "
                                              "the parser accepts without "
                                              "recovery", len(errors)))
                            if True:
                                same = (o2.value.to_str() == o.value.to_str()) \
                                    if kind == "lr" else \
                                    (_forest_sig(o2.value) == _forest_sig(o.value))
                                if not same:
                                    probs.append(("result differs from the "
                                                  "parser without recovery",))
                        if sname in ("default", "custom-default"):
                            trees = [o.value] if kind == "lr" else \
                                _some_trees(o.value)
                            for t in trees:
                                tp, leaves = tree_valid(t, s, nts[0], matchers)
                                probs += tp
                                if kind == "lr" and not tp and not probs:
                                    cover = [0] * len(s)
                                    for lf in leaves:
                                        for k in range(lf.start_position,
                                                       lf.end_position):
                                            cover[k] += 1
                                    for e in errors:
                                        for k in range(e.location.start_position,
                                                       e.location.end_position):
                                            cover[k] += 1
                                    bad = [k for k, c in enumerate(cover)
                                           if s[k] not in WS and c != 1]
                                    if bad:
                                        probs.append((
                                            "character neither in exactly one "
                                            "leaf nor in exactly one error span",
                                            bad))
                    else:
                        probs.append((f"raised {o.brief()}",))
                    if probs:
                        kinds = sorted({str(p_[0]) for p_ in probs})
                        fid = "GLR-INVALID-TREE" if (
                            kind == "glr" and lm != "M0" and set(kinds) <= {
                                "leaf is not a token of the input in order",
                                "node does not apply its production"}) \
                            else "LR-NONTERMINATION" if (
                                kind == "lr" and kinds == [
                                    "does not terminate (step budget)"]) \
                            else "RECOVERY"
                        judge.deviation(fid, cfg, gk, s,
                                        "error recovery: " + ", ".join(kinds)[:200],
                                        {"problems": [list(map(str, p_))
                                                      for p_ in probs[:6]]}, case)
        if not samples:
            samples.append({"grammar": gk, "lexmap": lm,
                            "strategies": u["strategies"],
                            "inputs": f"all {len(inputs)} strings over "
                            f"{u['alpha']!r} up to {u['nmax']}"})
    r = judge.result()
    r.update(st)
    r.update(states=len(mon.states), transitions=mon.transitions,
             traces=mon.traces, samples=samples)
    return r


def _some_trees(forest):
    fv = ForestView(forest.result)
    if fv.cyclic:
        return []
    n = fv.count()
    return [forest[i] for i in range(min(n, 6))]


def _forest_sig(forest):
    fv = ForestView(forest.result)
    if fv.cyclic:
        return ("cyclic", len(fv.order))
    n = fv.count()
    return (str(n), tuple(forest[i].to_str() for i in range(min(n, 6))))


def evidence(total, tier, seed, complete):
    cov = {
        "states": total.get("states", 0),
        "transitions": total.get("transitions", 0),
        "traces_validated_against_impl": total.get("traces", 0),
        "evaluations": total.get("evaluations", 0),
        "distinct_nontrivial": total.get("nontrivial", 0),
        "rule": "every grammar x lexeme map x {Parser(build_tree), GLRParser} x "
                "recovery strategy {default, custom calling the default, "
                "skip one character, inject an expected zero-length token once "
                "per position, always False} x every string up to the bound "
                "over {a,b,x,' '} (every corruption of every sentence of that "
                "length is among them): termination by step budget, outcome "
                "is a result or SyntaxError, error spans in bounds / ordered / "
                "disjoint, returned trees are derivations over tokens of the "
                "input in order, LR character coverage, sentences unaffected; "
                "non-trivial = parse that returned a result with >= 1 "
                "recorded error",
        "samples": total.get("samples", [])[:4],
        "exhaustive": bool(complete),
        "domain": [{k: str(v) for k, v in row.items()}
                   for row in plan(tier, seed)],
    }
    return cov, ["bounded as listed; the inject strategy is limited to one "
                 "token per position so that non-termination cannot be the "
                 "strategy's own doing"]


def replay(rec):
    return False, "run the stand-alone script stored in the replay file"
