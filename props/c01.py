"""C01 - GLR accepts exactly the grammar's language and returns only valid
derivations (DESIGN.md section 8, shape A)."""
import time

from pgmc import spaces
from pgmc.drive import (BudgetExceeded, Monitor, build, grammar_from_string,
                        install_state_budget, parse)
from pgmc.findings import Judge, Known
from pgmc.glrcmp import ForestCmp
from pgmc.ref.cfg import CharRef

PROP = "C01"
KNOWN = Known(PROP)
FLOOR = {"quick": 1000, "thorough": 5000}
NTS = ("S", "A")
CHUNK = 40

# (space, lexmaps, layouts, input alphabet, max input length)
SPACES = {
    "k3": dict(nts=("S", "A"), ts=("a", "b"), r=2, k=3),
    "k4": dict(nts=("S", "A"), ts=("a", "b"), r=2, k=4),
    "r3": dict(nts=("S", "A"), ts=("a", "b"), r=3, k=3),
    "n3": dict(nts=("S", "A", "B"), ts=("a", "b"), r=2, k=4),
}


def plan(tier, seed):
    """list of (space, index filter, lexmaps, ws list, alphabet, nmax)"""
    if tier == "quick":
        return [
            ("k3", None, ("M0", "M1", "M2", "M3", "M4"), (" ",), "ab ", 4),
            # seed-rotated, fully enumerated window of the thorough domain
            ("k4", (seed, 40), ("M0", "M3"), (" ",), "ab ", 4),
        ]
    return [
        ("k3", None, ("M0", "M1", "M2", "M3", "M4"), (" ", ""), "ab ", 5),
        ("k4", None, ("M0",), (" ",), "ab ", 5),
        ("k4", None, ("M1", "M2", "M3", "M4"), (" ",), "ab ", 4),
        ("r3", None, ("M0", "M3"), (" ",), "ab ", 4),
        ("n3", None, ("M0",), (" ",), "ab ", 4),
    ]


def units(tier, seed):
    out = []
    for space, win, lexmaps, wss, alpha, nmax in plan(tier, seed):
        n = len(spaces.grammars(**SPACES[space]))
        idxs = list(range(n)) if win is None else list(
            spaces.window(n, win[0], win[1]))
        for lm in lexmaps:
            for ws in wss:
                for i in range(0, len(idxs), CHUNK):
                    out.append({"space": space, "idx": idxs[i:i + CHUNK],
                                "lexmap": lm, "ws": ws, "alpha": alpha,
                                "nmax": nmax})
    return out


def check_case(judge, mon, stats, ref, parsers, gk, text, lm, ws, s, nts):
    an = ref.analyse(s)
    for tables, p in parsers:
        cfg = f"{lm}/ws={ws!r}/{tables}"
        case = {"grammar": text, "parser": "glr",
                "options": {"tables": tables, "ws": ws}, "input": s}
        shifts0 = mon.transitions
        o = parse(p, s, mon)
        stats["evaluations"] += 1
        key = o.kind
        stats["outcomes"][key] = stats["outcomes"].get(key, 0) + 1
        if o.kind == "ok":
            if not an.sentence:
                judge.deviation(None, cfg, gk, s, "accepted a non-sentence",
                                {"outcome": "ok"}, case)
                continue
            cmp = ForestCmp(an, o.value.result, nts[0], ref.prods)
            if cmp.local or cmp.surplus:
                judge.deviation(
                    "GLR-INVALID-TREE", cfg, gk, s,
                    "forest contains a tree that is not a derivation of the input",
                    {"local": cmp.local[:5], "surplus": cmp.surplus[:5],
                     "mode": cmp.mode}, case)
            if an.count >= 2 or cmp.own_count != 1:
                stats["nontrivial"] += 1
        elif o.kind == "syntax":
            if an.sentence:
                judge.deviation("GLR-REJECTS-SENTENCE", cfg, gk, s,
                                "SyntaxError on a sentence",
                                {"outcome": o.brief()}, case)
            elif o.exc.location.start_position and \
                    o.exc.location.start_position > 0:
                stats["nontrivial"] += 1
        else:
            judge.deviation(
                "GLR-WRONG-EXCEPTION" if o.kind == "exc" else None,
                cfg, gk, s,
                f"parse ended with {o.brief()} instead of a forest or SyntaxError",
                {"outcome": o.kind,
                 "type": type(o.exc).__name__ if o.exc else None,
                 "sentence": an.sentence}, case)


def worker_init():
    install_state_budget(400)


def run_unit(u):
    sp = SPACES[u["space"]]
    nts = sp["nts"]
    gs = spaces.grammars(**sp)
    inputs = spaces.strings(u["alpha"], u["nmax"])
    mon = Monitor()
    judge = Judge(PROP, KNOWN)
    stats = {"evaluations": 0, "nontrivial": 0, "outcomes": {}, "grammars": 0}
    samples = []
    for gi in u["idx"]:
        prods = gs[gi]
        gk = spaces.gkey(prods, nts)
        text = spaces.render_grammar(prods, nts, u["lexmap"])
        ref = CharRef(spaces.ordered_prods(prods, nts), nts[0],
                      spaces.LEXMAPS[u["lexmap"]], ws=u["ws"])
        try:
            g = grammar_from_string(text)
            parsers = [(t, build("glr", g, mon, tag=(gi, t), tables=t, ws=u["ws"]))
                       for t in ("LALR", "SLR")]
        except (Exception, BudgetExceeded) as e:   # noqa: BLE001
            judge.deviation("BUILD-FAILS", f"{u['lexmap']}/build", gk, "",
                            "GLRParser construction failed",
                            {"type": type(e).__name__}, {"grammar": text})
            continue
        stats["grammars"] += 1
        for s in inputs:
            check_case(judge, mon, stats, ref, parsers, gk, text, u["lexmap"],
                       u["ws"], s, nts)
        if len(samples) < 1:
            samples.append({"grammar": gk, "lexmap": u["lexmap"], "ws": u["ws"],
                            "inputs": f"all {len(inputs)} strings over "
                            f"{u['alpha']!r} up to length {u['nmax']}"})
    r = judge.result()
    r.update(stats)
    r.update(states=len(mon.states), transitions=mon.transitions,
             traces=mon.traces, samples=samples)
    return r


def evidence(total, tier, seed, complete):
    cov = {
        "states": total.get("states", 0),
        "transitions": total.get("transitions", 0),
        "traces_validated_against_impl": total.get("traces", 0),
        "evaluations": total.get("evaluations", 0),
        "distinct_nontrivial": total.get("nontrivial", 0),
        "rule": "every grammar of the listed spaces x {LALR,SLR} x lexeme map x "
                "layout x every input string up to the length bound; a case is "
                "non-trivial when the reference has >= 2 derivations, the forest "
                "packs more than one tree, or the input is rejected after at "
                "least one shifted token; cases are distinct by construction "
                "(enumeration without repetition)",
        "samples": total.get("samples", [])[:6],
        "exhaustive": bool(complete),
        "domain": [list(map(str, p)) for p in plan(tier, seed)],
        "grammars": total.get("grammars", 0),
        "outcomes": total.get("outcomes", {}),
        "state_definition": "distinct (grammar, table kind, GSS frontier "
                            "signature at a shift); transitions = executed "
                            "reductions + shifts; traces = parse() runs "
                            "compared with the reference chart",
    }
    assumptions = [
        "reference: character-level chart/SPPF (pgmc/ref/cfg.py), independent of LR theory",
        "bounded: grammars <= k productions over 2-3 nonterminals, rhs <= r, inputs <= n characters",
        "PYTHONHASHSEED=0 (set order is explored in C16)",
    ]
    return cov, assumptions


def replay(rec):
    case = rec["case"]
    from parglare import Grammar
    g = Grammar.from_string(case["grammar"])
    raise NotImplementedError
