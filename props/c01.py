"""C01 - GLR accepts exactly the grammar's language and returns only valid
derivations (DESIGN.md section 8, shape A)."""
from pgmc import glrsweep
from pgmc.findings import Known
from pgmc.glrcmp import ForestCmp

PROP = "C01"
KNOWN = Known(PROP)
FLOOR = {"quick": 1000, "thorough": 5000}
worker_init = glrsweep.worker_init
ALL = ("M0", "M1", "M2", "M3", "M4")


def plan(tier, seed):
    if tier == "quick":
        return [
            dict(space="k3", lexmaps=ALL, wss=(" ",), alpha="ab ", nmax=4),
            # a regex that runs across layout characters
            dict(space="k3", win=(seed, 2), lexmaps=("M5",), wss=(" ",),
                 alpha="ab ", nmax=4),
            # seed-rotated, fully enumerated windows of the thorough domain
            dict(space="k4only", win=(seed, 40), lexmaps=("M0", "M3"),
                 wss=(" ",), alpha="ab ", nmax=4),
            # longer right-hand sides / a third nonterminal: the smallest
            # grammars on which GLR loses its *only* stack live here
            dict(space="r3", win=(seed, 40), lexmaps=("M0",), wss=("",),
                 alpha="ab", nmax=4),
            dict(space="n3", win=(seed, 80), lexmaps=("M0",), wss=("",),
                 alpha="ab", nmax=4),
            dict(space="n3a", lexmaps=("M0",), wss=("",), alpha="a", nmax=4),
        ]
    return [
        dict(space="k3", lexmaps=ALL, wss=(" ", ""), alpha="ab ", nmax=5),
        dict(space="k3", lexmaps=("M5",), wss=(" ",), alpha="ab ", nmax=4),
        dict(space="k4only", lexmaps=("M0",), wss=(" ",), alpha="ab ", nmax=5),
        dict(space="k4only", lexmaps=("M1", "M2", "M3", "M4"), wss=(" ",),
             alpha="ab ", nmax=4),
        dict(space="r3", lexmaps=("M0", "M3"), wss=("",), alpha="ab", nmax=4),
        dict(space="n3", lexmaps=("M0",), wss=("",), alpha="ab", nmax=4),
        dict(space="n3a", lexmaps=("M0",), wss=("",), alpha="a", nmax=4),
    ]


def units(tier, seed):
    import os
    rows = plan(tier, seed)
    only = os.environ.get("PGMC_ONLY_SPACES")      # exploratory use only
    if only:
        rows = [r for r in rows if r["space"] in only.split(",")]
    from pgmc import longfam
    return glrsweep.make_units(rows) + longfam.units(
        (11, 12) if tier == "quick" else (11, 12, 13, 14))


def check_case(ctx, an, s, p, o):
    st = ctx.stats
    if o.kind == "ok":
        if not an.sentence:
            ctx.deviation(None, s, "accepted a non-sentence", {"outcome": "ok"})
            return
        cmp = ForestCmp(an, o.value.result, ctx.nts[0], ctx.ref.prods)
        if cmp.local or cmp.surplus:
            ctx.deviation(
                "GLR-INVALID-TREE", s,
                "forest contains a tree that is not a derivation of the input",
                {"local": cmp.local[:5], "surplus": cmp.surplus[:5],
                 "mode": cmp.mode})
        if an.count >= 2 or cmp.own_count != 1:
            st["nontrivial"] += 1
    elif o.kind == "syntax":
        if an.sentence:
            ctx.deviation("GLR-REJECTS-SENTENCE", s, "SyntaxError on a sentence",
                          {"outcome": o.brief()})
        elif (o.exc.location.start_position or 0) > 0:
            st["nontrivial"] += 1
    else:
        ctx.deviation(
            None, s,
            f"parse ended with {o.brief()} instead of a forest or SyntaxError",
            {"outcome": o.kind, "type": type(o.exc).__name__ if o.exc else None,
             "sentence": an.sentence})


def run_unit(u):
    if u["space"] == "long":
        from pgmc import longfam
        return longfam.run(u, PROP, KNOWN, "language")
    return glrsweep.sweep(u, PROP, KNOWN, check_case)


def evidence(total, tier, seed, complete):
    return glrsweep.base_evidence(
        total, plan(tier, seed), complete,
        "every grammar of the listed spaces x {LALR,SLR} x lexeme map x layout "
        "x every input string up to the length bound; a case is non-trivial "
        "when the reference has >= 2 derivations, the forest packs more than "
        "one tree, or the input is rejected after at least one shifted token; "
        "cases are distinct by construction (enumeration without repetition)")


def replay(rec):
    from pgmc.replay import replay_glr
    return replay_glr(rec, PROP, KNOWN, check_case)
