"""C17 - with consume_input off, results parse sentence prefixes; GLR finds
them all (shape A)."""
from pgmc import glrsweep, spaces
from pgmc.drive import (BudgetExceeded, ForestView, build, grammar_from_string,
                        parse, tree_canon)
from pgmc.findings import Known
from pgmc.ref.cfg import TooMany

PROP = "C17"
KNOWN = Known(PROP)
FLOOR = {"quick": 1000, "thorough": 5000}
worker_init = glrsweep.worker_init
K = 1000


def plan(tier, seed):
    if tier == "quick":
        return [
            dict(space="k3", lexmaps=("M0", "M3", "M0p"), wss=("", " "),
                 alpha="ab", nmax=4, lexdis=(False, True)),
            dict(space="k4only", win=(seed, 40), lexmaps=("M0",), wss=("",),
                 alpha="ab", nmax=4, lexdis=(False, True)),
            # the same through a pass-through custom_token_recognition
            # callable (the scanner is then reached by another path)
            dict(space="k3", win=(seed, 4), lexmaps=("M0", "M0p"), wss=("",),
                 alpha="ab", nmax=4, lexdis=(False, True), ctr=True),
        ]
    return [
        dict(space="k3", lexmaps=("M0", "M3", "M0p"), wss=("", " "),
             alpha="ab", nmax=5, lexdis=(False, True)),
        dict(space="k3", lexmaps=("M0",), wss=(" ",), alpha="ab ",
             nmax=4, lexdis=(False, True)),
        dict(space="k4only", lexmaps=("M0",), wss=("",), alpha="ab", nmax=5,
             lexdis=(False, True)),
        dict(space="k4only", lexmaps=("M3",), wss=("",), alpha="ab", nmax=4,
             lexdis=(False, True)),
        dict(space="k3", lexmaps=("M0", "M0p"), wss=("",), alpha="ab", nmax=4,
             lexdis=(False, True), ctr=True),
    ]


def units(tier, seed):
    out = []
    for u in glrsweep.make_units(plan(tier, seed)):
        for ld in u.pop("lexdis"):
            if ld and u["lexmap"] not in ("M0", "M0p"):
                # with overlapping terminals lexical disambiguation itself
                # decides which tokenisations exist; "sentence prefix" is then
                # not defined by the grammar alone - outside the oracle
                continue
            v = dict(u)
            v["ld"] = ld
            out.append(v)
    return out


def ref_trees(an):
    try:
        return set(an.trees(K))
    except TooMany:
        return None


def deviations(an, o):
    """list of (finding class, what, detail) for one outcome"""
    out = []
    if o.kind == "syntax":
        if an.sentence:      # some prefix is a sentence
            out.append(("PREFIX-REJECTED",
                        "SyntaxError although a prefix is a sentence",
                        {"prefix_ends": [r[2] for r in an.roots]}))
        return out, False
    if o.kind != "ok":
        return [(None, f"parse ended with {o.brief()}", {"outcome": o.kind})], False
    if not an.sentence:
        return [(None, "result although no prefix is a sentence", {})], False
    want = ref_trees(an)
    fv = ForestView(o.value.result)
    got = None if fv.cyclic else fv.trees(K)
    if want is None or got is None:
        return out, True
    gs = set(got)
    surplus = sorted(gs - want, key=repr)
    missing = sorted(want - gs, key=repr)
    dups = len(got) - len(gs)
    if surplus:
        out.append(("PREFIX-INVALID-TREE",
                    "forest holds a tree that is not a derivation of a "
                    "sentence prefix", {"surplus": surplus[:10]}))
    if missing:
        out.append(("PREFIX-MISSING-DERIVATIONS",
                    f"forest lacks {len(missing)} derivations of sentence "
                    "prefixes", {"missing": missing[:50], "n": len(missing)}))
    if dups:
        out.append(("PREFIX-DUPLICATE-TREES",
                    "a derivation of a prefix is enumerated more than once",
                    {"dups": dups, "trees": len(got)}))
    return out, False


TWINS = {}


def keep_stop_twin(ctx, p):
    """Cause oracle for the finding STOP-DROPPED: the same GLRParser with the
    end-of-input pseudo token kept out of the longest-match competition (the
    repair that test_no_consume_input_multiple_trees blocks).  Installed on a
    twin *instance* from the harness; /repo is untouched."""
    tw = TWINS.get(id(p))
    if tw is None:
        from parglare.grammar import STOP
        tw = build("glr", grammar_from_string(ctx.text), None,
                   tables=ctx.table, ws=ctx.u["ws"], **ctx.opts)
        orig = tw._lexical_disambiguation

        def patched(tokens):
            stop = [t for t in tokens if t.symbol is STOP]
            if not stop:
                return orig(tokens)
            return stop + orig([t for t in tokens if t.symbol is not STOP])
        tw._lexical_disambiguation = patched
        TWINS[id(p)] = (tw, p)       # keep p alive: id stays unique
        tw = TWINS[id(p)]
    return tw[0]


def check_glr(ctx, an, s, p, o):
    st = ctx.stats
    devs, big = deviations(an, o)
    if big:
        st["uncompared_big"] = st.get("uncompared_big", 0) + 1
    if len(an.roots) >= 2:
        st["nontrivial"] += 1
    if not devs:
        return
    if ctx.opts.get("lexical_disambiguation"):
        # attribute by intervention: does the deviation vanish (or shrink to a
        # listed witness of the revisit defect) when STOP survives the
        # longest-match rule?
        tw = keep_stop_twin(ctx, p)
        o2 = parse(tw, s, None)
        devs2, _ = deviations(an, o2)
        if devs2 != devs:
            ks = ctx.judge.known_seen
            ks["STOP-DROPPED"] = ks.get("STOP-DROPPED", 0) + 1
            saved = ctx.table
            ctx.table = f"{saved}+keepstop"
            for fid, what, detail in devs2:
                ctx.deviation(fid, s, what + " (with STOP kept)", detail)
            ctx.table = saved
            return
    for fid, what, detail in devs:
        ctx.deviation(fid, s, what, detail)


def passthrough(context, get_tokens):
    return get_tokens()


def run_unit(u):
    opts = {"consume_input": False, "lexical_disambiguation": u["ld"]}
    if u.get("ctr"):
        opts["custom_token_recognition"] = passthrough
    r = glrsweep.sweep(u, PROP, KNOWN, check_glr, acyclic_only=True,
                       parser_opts=opts, prefixes=True)
    lr = lr_part(u)
    from pgmc.explore import merge
    return merge(r, lr)


def lr_part(u):
    """Parser(consume_input=False, build_tree=True): whatever is returned is a
    derivation of a sentence prefix."""
    from pgmc.drive import Monitor
    from pgmc.findings import Judge
    from pgmc.ref.cfg import CharRef
    sp = glrsweep.SPACES[u["space"]]
    nts = sp["nts"]
    gs = spaces.grammars(**sp)
    inputs = spaces.strings(u["alpha"], u["nmax"])
    mon = Monitor()
    judge = Judge(PROP, KNOWN)
    stats = {"lr_evaluations": 0, "lr_parsers": 0, "lr_budget": 0,
             "lr_results": 0}
    if u["ld"] is False:
        return {}           # LR part runs once per (grammar, map, ws)
    for gi in u["idx"]:
        prods = gs[gi]
        if not spaces.is_acyclic(prods):
            continue
        gk = spaces.gkey(prods, nts)
        text = spaces.render_grammar(prods, nts, u["lexmap"])
        ref = CharRef(spaces.ordered_prods(prods, nts), nts[0],
                      spaces.LEXMAPS[u["lexmap"]], ws=u["ws"])
        for tk in ("LALR", "SLR"):
            try:
                g = grammar_from_string(text)
                p = build("lr", g, mon, tag=(gi, tk, "lr"), tables=tk,
                          ws=u["ws"], consume_input=False, build_tree=True,
                          **({"custom_token_recognition": passthrough}
                             if u.get("ctr") else {}))
            except (Exception, BudgetExceeded):   # noqa: BLE001
                continue     # conflicts: no LR parser for this grammar
            stats["lr_parsers"] += 1
            cfg = f"{u['lexmap']}/ws={u['ws']!r}/{tk}/lr"
            for s in inputs:
                o = parse(p, s, mon)
                stats["lr_evaluations"] += 1
                if o.kind == "budget":
                    stats["lr_budget"] += 1
                if o.kind != "ok":
                    continue          # "it may also raise"
                stats["lr_results"] += 1
                an = ref.analyse(s, prefixes=True)
                want = ref_trees(an)
                t = tree_canon(o.value)
                if want is not None and t not in want:
                    judge.deviation(
                        "LR-PREFIX-INVALID", cfg, gk, s,
                        "Parser(consume_input=False) returned a tree that is "
                        "not a derivation of a sentence prefix",
                        {"tree": t},
                        {"grammar": text, "parser": "lr",
                         "options": {"tables": tk, "ws": u["ws"],
                                     "consume_input": False,
                                     "build_tree": True}, "input": s})
    r = judge.result()
    r.update(stats)
    r.update(states=len(mon.states), transitions=mon.transitions,
             traces=mon.traces)
    return r


def evidence(total, tier, seed, complete):
    cov, a = glrsweep.base_evidence(
        total, plan(tier, seed), complete,
        "every acyclic grammar x {LALR,SLR} x lexeme map x layout x "
        "lexical_disambiguation in {False, True} x every input up to the "
        "bound (every sentence followed by every continuation of that length "
        "is among them); GLR: tree set = union over all sentence prefixes of "
        "the reference derivations, each once; LR: returned tree is a "
        "derivation of a sentence prefix; non-trivial = >= 2 prefixes of the "
        "input are sentences")
    for k in ("lr_evaluations", "lr_parsers", "lr_results", "lr_budget",
              "uncompared_big"):
        cov[k] = total.get(k, 0)
    return cov, a


def replay(rec):
    from pgmc.replay import replay_glr
    if rec["case"].get("parser") == "lr":
        return False, "LR replay: run the stand-alone script in the file"
    return replay_glr(rec, PROP, KNOWN, check_glr, prefixes=True)
