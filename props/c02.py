"""C02 - the GLR forest contains every derivation of the input (shape A)."""
from pgmc import glrsweep
from pgmc.findings import Known
from pgmc.glrcmp import ForestCmp

PROP = "C02"
KNOWN = Known(PROP)
FLOOR = {"quick": 1000, "thorough": 5000}
worker_init = glrsweep.worker_init
ALL = ("M0", "M1", "M2", "M3", "M4")


def plan(tier, seed):
    if tier == "quick":
        return [
            dict(space="k3", lexmaps=ALL, wss=("", " "), alpha="ab", nmax=4),
            dict(space="k3", win=(seed, 2), lexmaps=("M5",), wss=(" ",),
                 alpha="ab ", nmax=4),
            dict(space="k4only", win=(seed, 40), lexmaps=("M0", "M3"),
                 wss=("",), alpha="ab", nmax=4),
            dict(space="r4", win=(seed, 4), lexmaps=("M0",), wss=("",),
                 alpha="a", nmax=7),
        ]
    return [
        dict(space="k3", lexmaps=ALL, wss=("", " "), alpha="ab", nmax=5),
        dict(space="k3", lexmaps=("M0", "M3", "M5"), wss=(" ",), alpha="ab ",
             nmax=4),
        dict(space="k4only", lexmaps=("M0",), wss=("",), alpha="ab", nmax=5),
        dict(space="k4only", lexmaps=("M1", "M2", "M3", "M4"), wss=("",),
             alpha="ab", nmax=4),
        dict(space="r3", lexmaps=("M0",), wss=("",), alpha="ab", nmax=4),
        dict(space="n3", lexmaps=("M0",), wss=("",), alpha="ab", nmax=4),
        dict(space="r4", lexmaps=("M0",), wss=("",), alpha="a", nmax=8),
    ]


def units(tier, seed):
    return glrsweep.make_units(plan(tier, seed))


def check_case(ctx, an, s, p, o):
    if not an.sentence or o.kind != "ok":
        return        # acceptance is C01's subject
    cmp = ForestCmp(an, o.value.result, ctx.nts[0], ctx.ref.prods)
    if an.count >= 2:
        ctx.stats["nontrivial"] += 1
    if cmp.missing:
        ctx.deviation(
            "GLR-MISSING-DERIVATIONS", s,
            f"forest lacks {len(cmp.missing)} of the {an.count} derivations "
            "of the input",
            {"missing": cmp.missing[:50], "n": len(cmp.missing),
             "mode": cmp.mode})
    elif cmp.mode == "alts" and cmp.own_count < an.count:
        ctx.deviation(None, s, "forest represents fewer trees than there are "
                      "derivations", {"own": cmp.own_count, "ref": an.count})


def run_unit(u):
    return glrsweep.sweep(u, PROP, KNOWN, check_case, acyclic_only=True)


def evidence(total, tier, seed, complete):
    return glrsweep.base_evidence(
        total, plan(tier, seed), complete,
        "every acyclic grammar of the listed spaces x {LALR,SLR} x lexeme map "
        "x layout x every input up to the bound; sentences are compared tree "
        "set against tree set with the reference SPPF (leaf positions and "
        "production ids; interior spans are C08's subject); non-trivial = "
        "sentence with >= 2 derivations; distinct by enumeration")


def replay(rec):
    from pgmc.replay import replay_glr
    return replay_glr(rec, PROP, KNOWN, check_case)
