"""C13 - repetition, optional, separator, group and greedy syntax mean what
the docs say (shape A)."""
import collections
import itertools
import re

from pgmc import spaces
from pgmc.drive import (BudgetExceeded, ForestView, Monitor, build,
                        grammar_from_string, install_state_budget, parse)
from pgmc.findings import Judge, Known
from pgmc.ref.cfg import CharRef
from pgmc.ref.sugar import Exp

PROP = "C13"
KNOWN = Known(PROP)
FLOOR = {"quick": 1000, "thorough": 5000}

BASES = ["a", "b", "A", "(a b)", "(a | b)", "(a b?)"]
OPS = ["", "?", "*", "+"]
SEPS = ["", "[c]", "[C]"]
TERMS = 'terminals\na: "a";\nb: "b";\nc: ",";\n'
ARULE = "A: a b | b;\nC: c;\nN: b | EMPTY;\n"
LEX = {"a": ("s", "a"), "b": ("s", "b"), "c": ("s", ","), "z": ("s", "z")}
APRODS = [("A", ("a", "b")), ("A", ("b",)), ("C", ("c",)), ("N", ("b",)),
          ("N", ())]


def all_items():
    out = []
    for base in BASES:
        for op in OPS:
            for sep in (SEPS if op in ("*", "+") else [""]):
                out.append((base, op, sep))
    # a nullable element: only with a separator (N+ alone is cyclic)
    out += [("N", "", ""), ("N", "?", ""), ("N", "+", "[c]"), ("N", "*", "[c]"),
            ("N", "+", "[C]")]
    return out


REDUCED = [("a", o, s) for o in OPS for s in (["", "[c]"] if o in "*+" and o
                                               else [""])] + \
          [("(a b?)", "*", ""), ("A", "+", "[C]"), ("b", "?", "")]


def shapes(n):
    its = all_items() if n <= 2 else REDUCED
    return list(itertools.product(its, repeat=n))


GREEDY_FIRST = ["*!", "+!", "?!"]
GREEDY_LAST = ["*", "+", "?", "*!", "+!", "?!"]


def greedy_shapes():
    out = []
    for n in (2, 3):
        for ops in itertools.product(GREEDY_FIRST, repeat=n - 1):
            for last in GREEDY_LAST:
                for tail in ("", "b"):
                    out.append((ops + (last,), tail))
    return out


def samebase_pairs():
    """two repetitions over the SAME base with different operator/separator:
    the helper rules must be shared or kept apart exactly as documented (one
    helper per base, operator kind and separator)"""
    its = [(b, o, sp_) for b in ("a", "A") for o in ("*", "+")
           for sp_ in ("", "[c]", "[C]")]
    return [(x, ("b", "", ""), y) for x in its for y in its]


def plan(tier, seed):
    if tier == "quick":
        return [dict(fam="items", n=1, nmax=5), dict(fam="items", n=2, nmax=4,
                                                     win=(seed, 12)),
                dict(fam="samebase", nmax=5),
                dict(fam="greedy", nmax=5), dict(fam="collision"),
                dict(fam="suffix"),
                dict(fam="imported", nmax=4)]
    return [dict(fam="items", n=1, nmax=5), dict(fam="items", n=2, nmax=5),
            dict(fam="samebase", nmax=5),
            dict(fam="items", n=3, nmax=4), dict(fam="greedy", nmax=6),
            dict(fam="collision"), dict(fam="suffix"),
            dict(fam="imported", nmax=5)]


def units(tier, seed):
    out = []
    for row in plan(tier, seed):
        if row["fam"] == "items":
            n = len(shapes(row["n"]))
            win = row.get("win")
            idxs = list(range(n)) if win is None else list(
                spaces.window(n, win[0], win[1]))
            for i in range(0, len(idxs), 6):
                out.append(dict(fam="items", n=row["n"], nmax=row["nmax"],
                                idx=idxs[i:i + 6]))
        elif row["fam"] == "samebase":
            n = len(samebase_pairs())
            for i in range(0, n, 6):
                out.append(dict(fam="items", n="sb", nmax=row["nmax"],
                                idx=list(range(i, min(n, i + 6)))))
        elif row["fam"] == "greedy":
            n = len(greedy_shapes())
            for i in range(0, n, 6):
                out.append(dict(fam="greedy", nmax=row["nmax"],
                                idx=list(range(i, min(n, i + 6)))))
        elif row["fam"] == "imported":
            n = len(all_items())
            for i in range(0, n, 4):
                out.append(dict(fam="imported", nmax=row["nmax"],
                                idx=list(range(i, min(n, i + 4)))))
        elif row["fam"] == "suffix":
            out.append(dict(fam="suffix"))
        else:
            out.append(dict(fam="collision"))
    return out


def worker_init():
    install_state_budget(800)


def norm(v):
    if isinstance(v, (list, tuple)):
        return tuple(norm(x) for x in v)
    return v


def run_lr(p, s, mon):
    o = parse(p, s, mon)
    if o.kind == "ok":
        return ("ok", norm(o.value))
    if o.kind == "syntax":
        return ("syntax", o.exc.location.start_position)
    return (o.kind,)


def run_glr(p, s, mon):
    o = parse(p, s, mon)
    if o.kind == "ok":
        fv = ForestView(o.value.result)
        if fv.cyclic:
            return ("cyclic",)
        n = fv.count()
        if n > 60:
            return ("many", str(n))
        return ("ok", tuple(sorted((norm(p.call_actions(o.value[i]))
                                    for i in range(n)), key=repr)))
    if o.kind == "syntax":
        return ("syntax", o.exc.location.start_position)
    return (o.kind,)


CONFIGS = [("lr", "lr", {}), ("lr/ps=0", "lr", {"prefer_shifts": False}),
           ("glr", "glr", {}), ("glr/ps=1", "glr", {"prefer_shifts": True})]


def build_or_name(kind, text, mon, tag, opts):
    try:
        g = text() if callable(text) else grammar_from_string(text)
        return build(kind, g, mon, tag=tag, ws="", **opts)
    except BudgetExceeded:
        return "BudgetExceeded"
    except Exception as e:     # noqa: BLE001
        return type(e).__name__


def compare(judge, st, mon, cfgbase, key, sug, exp, inputs, ref=None,
            fid="SUGAR"):
    for cname, kind, opts in CONFIGS:
        cfg = f"{cfgbase}/{cname}"
        a = build_or_name(kind, sug, mon, (key, cname, 0), opts)
        b = build_or_name(kind, exp, mon, (key, cname, 1), opts)
        if isinstance(a, str) or isinstance(b, str):
            na = a if isinstance(a, str) else "constructs"
            nb = b if isinstance(b, str) else "constructs"
            if na != nb:
                judge.deviation(fid, cfg, key, "",
                                "construction outcome differs from the "
                                "documented expansion", {"sugar": na,
                                                         "expansion": nb},
                                {"grammar": key if callable(sug) else sug,
                                 "expansion": exp,
                                 "parser": kind, "options": opts})
            continue
        runner = run_lr if kind == "lr" else run_glr
        for s in inputs:
            r1 = runner(a, s, mon)
            r2 = runner(b, s, mon)
            st["evaluations"] += 1
            if r1[0] == "ok":
                st["nontrivial"] += 1
            if r1 != r2:
                judge.deviation(fid, cfg, key, s,
                                "sugared grammar and its documented expansion "
                                "disagree", {"sugar": str(r1)[:300],
                                             "expansion": str(r2)[:300]},
                                {"grammar": key if callable(sug) else sug,
                                 "expansion": exp,
                                 "parser": kind, "options": dict(opts, ws=""),
                                 "input": s})
            if ref is not None and cname == "glr" and r1[0] != "budget":
                sent = ref.analyse(s).sentence
                if sent != (r1[0] != "syntax"):
                    judge.deviation("SUGAR-LANGUAGE", cfg, key, s,
                                    "language differs from the chart of the "
                                    "documented expansion",
                                    {"accepted": r1[0], "sentence": sent},
                                    {"grammar": sug, "parser": "glr",
                                     "options": {"ws": ""}, "input": s})


def doc_eval(n):
    """what the docs say the result is, computed from the derivation tree:
    x+ / x* -> the list of the matched elements' values (separators dropped),
    x? -> the value or None, anything else -> parglare's default (single
    sub-result unpacked, otherwise the list of sub-results)"""
    if n.is_term():
        return n.value
    kids = [doc_eval(c) for c in n]
    an = n.symbol.action_name
    if an in ("collect", "collect_sep"):
        if len(kids) == 1:
            return [kids[0]]
        return list(kids[0]) + [kids[-1]]
    if an == "optional":
        return kids[0] if kids else None
    return kids[0] if len(kids) == 1 else kids


def check_documented_values(judge, st, mon, key, sug, inputs):
    """independent of the built-in actions: on-the-fly result of the sugared
    grammar vs the documented meaning evaluated over its own parse tree"""
    a = build_or_name("lr", sug, mon, (key, "val", 0), {})
    b = build_or_name("lr", sug, mon, (key, "val", 1), {"build_tree": True})
    if isinstance(a, str) or isinstance(b, str):
        return
    for s in inputs:
        o = parse(a, s, mon)
        if o.kind != "ok":
            continue
        t = parse(b, s, mon)
        if t.kind != "ok":
            continue
        st["documented_values"] += 1
        want = norm(doc_eval(t.value))
        got = norm(o.value)
        if got != want:
            judge.deviation("SUGAR-VALUES", "values", key, s,
                            "result differs from the documented meaning of "
                            "the repetition / optional operators",
                            {"got": str(got)[:200], "want": str(want)[:200]},
                            {"grammar": sug, "parser": "lr",
                             "options": {"ws": ""}, "input": s})


def items_unit(u):
    mon = Monitor()
    judge = Judge(PROP, KNOWN)
    st = collections.Counter()
    inputs = spaces.strings("ab,z", u["nmax"])
    shp = samebase_pairs() if u["n"] == "sb" else shapes(u["n"])
    samples = []
    for si in u["idx"]:
        seq = shp[si]
        head = "S: " + " ".join(f"{b}{o}{s}" for b, o, s in seq) + ' z;\n'
        sug = head + ARULE + TERMS + 'z: "z";\n'
        e = Exp()
        body = " ".join(e.item(b, o, s, "S") for b, o, s in seq)
        exp = "S: " + body + " z;\n" + e.text() + "\n" + ARULE + TERMS + \
            'z: "z";\n'
        prods = [("S", tuple(body.split()) + ("z",))] + e.prods() + APRODS
        ref = CharRef(prods, "S", LEX, ws="")
        compare(judge, st, mon, f"items{u['n']}", head.strip(), sug, exp,
                inputs, ref)
        check_documented_values(judge, st, mon, head.strip(), sug, inputs)
        if u["n"] == 1 and "(" in head:
            # the same rule carrying an action decorator: the decorator names
            # the action of S only, the group stays an anonymous rule with
            # the default result (pass_single makes the group's value S's)
            compare(judge, st, mon, "items1/decorated",
                    "@pass_single " + head.strip(), "@pass_single " + sug,
                    "@pass_single " + exp, inputs)
        st["shapes"] += 1
        if not samples:
            samples.append({"sugared": head.strip(), "expansion": exp,
                            "inputs": len(inputs)})
    r = judge.result()
    r.update(st)
    r.update(states=len(mon.states), transitions=mon.transitions,
             traces=mon.traces, samples=samples)
    return r


def greedy_unit(u):
    """adjacent repetitions over the same base, all greedy except possibly
    the last: same language as the non-greedy form; GLR returns the single
    tree where each repetition, left to right, takes as much as possible"""
    mon = Monitor()
    judge = Judge(PROP, KNOWN)
    st = collections.Counter()
    shp = greedy_shapes()
    inputs = spaces.strings("ab", u["nmax"])
    samples = []
    for si in u["idx"]:
        ops, tail = shp[si]
        t = f" {tail}" if tail else ""
        used = "a" + tail
        terms = "terminals\n" + "".join(f'{x}: "{x}";\n' for x in sorted(set(used)))
        sug = "S: " + " ".join(f"a{o}" for o in ops) + t + ";\n" + terms
        plain = "S: " + " ".join(f"a{o.rstrip('!')}" for o in ops) + t + ";\n" \
            + terms
        key = sug.splitlines()[0]
        cfg = "greedy"
        g = build_or_name("glr", sug, mon, (key, "g"), {})
        pl = build_or_name("glr", plain, mon, (key, "p"), {})
        if isinstance(g, str) or isinstance(pl, str):
            judge.deviation(None, cfg, key, "", "construction failed",
                            {"greedy": str(g), "plain": str(pl)},
                            {"grammar": sug})
            continue
        for s in inputs:
            rg = run_glr(g, s, mon)
            rp = run_glr(pl, s, mon)
            st["evaluations"] += 1
            case = {"grammar": sug, "parser": "glr", "options": {"ws": ""},
                    "input": s}
            if (rg[0] == "syntax") != (rp[0] == "syntax"):
                judge.deviation("GREEDY-LOSES-SENTENCES", cfg, key, s,
                                "greedy form accepts another language than "
                                "the non-greedy form",
                                {"greedy": rg[0], "plain": rp[0]}, case)
                continue
            if rp[0] != "ok":
                continue
            st["nontrivial"] += 1
            # expected: among the non-greedy results the one whose vector of
            # consumed lengths is lexicographically maximal

            def lens(res):
                res = res if isinstance(res, tuple) else (res,)
                out = []
                for x in res[:len(ops)]:
                    out.append(len(x) if isinstance(x, tuple) else
                               (0 if x is None else 1))
                return tuple(out)
            cands = rp[1] if len(ops) + (1 if tail else 0) > 1 else rp[1]
            best = max(cands, key=lens)
            if rg[0] != "ok" or rg[1] != (best,):
                judge.deviation("GREEDY", cfg, key, s,
                                "GLR does not return exactly the tree in "
                                "which each greedy repetition consumed as "
                                "much as possible",
                                {"got": str(rg)[:300], "want": str(best)}, case)
        if not samples:
            samples.append({"greedy": key, "plain": plain.splitlines()[0]})
    r = judge.result()
    r.update(st)
    r.update(states=len(mon.states), transitions=mon.transitions,
             traces=mon.traces, samples=samples)
    return r


# rule and separator names that contain the suffixes the helper rules are
# named with (x_0, x_1, x_opt): helper rules are shared by NAME
SUFFIX_NAMES = [
    "S: a_0* z a_1*;", "S: a_1* z a_0*;", "S: a_0+ z a_1*;", "S: a_1+ z a_0+;",
    "S: a_0? z a_opt*;", "S: a_opt? z a_0+;",
    "S: a_0+[c_0] z a_0+[c_1];", "S: a_0*[c_1] z a_0+[c_0];",
    "S: a_1+[c_0] z a_1*[c_1];", "S: a_0_c_0+ z a_0+[c_0];",
]
SUFFIX_TERMS = ('terminals\na_0: "a";\na_1: "b";\na_opt: "o";\n'
                'a_0_c_0: "q";\nc_0: ",";\nc_1: ";";\nz: "z";\n')


def suffix_unit():
    """language of the sugared grammar vs the chart of the documented
    expansion (helper rules written out under names that cannot clash)"""
    mon = Monitor()
    judge = Judge(PROP, KNOWN)
    st = collections.Counter()
    lex = {"a_0": ("s", "a"), "a_1": ("s", "b"), "a_opt": ("s", "o"),
           "a_0_c_0": ("s", "q"), "c_0": ("s", ","), "c_1": ("s", ";"),
           "z": ("s", "z")}
    inputs = spaces.strings("abo,;zq", 4)
    for body in SUFFIX_NAMES:
        items = body[3:-1].split()
        prods, rhs = [], []
        for k, it in enumerate(items):
            m = re.match(r"(\w+?)([*+?])?(?:\[(\w+)\])?$", it)
            base, op, sep = m.group(1), m.group(2), m.group(3)
            if not op:
                rhs.append(base)
                continue
            h = f"H{k}"
            rhs.append(h)
            if op == "?":
                prods += [(h, (base,)), (h, ())]
            else:
                one = f"H{k}p"
                step = (one, sep, base) if sep else (one, base)
                prods += [(one, step), (one, (base,))]
                prods += [(h, (one,))] + ([(h, ())] if op == "*" else [])
        prods = [("S", tuple(rhs))] + prods
        ref = CharRef(prods, "S", lex, ws="")
        text = body + "\n" + SUFFIX_TERMS
        for kind in ("lr", "glr"):
            p = build_or_name(kind, text, mon, (body, kind), {})
            if isinstance(p, str):
                judge.deviation("SUGAR", f"suffix/{kind}", body, "",
                                "grammar with suffix-like names does not "
                                "construct", {"outcome": p},
                                {"grammar": text, "parser": kind})
                continue
            for s_ in inputs:
                o = parse(p, s_, mon)
                st["evaluations"] += 1
                sent = ref.analyse(s_).sentence
                if sent:
                    st["nontrivial"] += 1
                if o.kind == "budget":
                    continue
                if sent != (o.kind == "ok"):
                    judge.deviation("SUGAR-LANGUAGE", f"suffix/{kind}", body,
                                    s_, "language differs from the documented "
                                    "expansion (names containing helper "
                                    "suffixes)",
                                    {"accepted": o.kind, "sentence": sent},
                                    {"grammar": text, "parser": kind,
                                     "options": {"ws": ""}, "input": s_})
    r = judge.result()
    r.update(st)
    r.update(states=len(mon.states), transitions=mon.transitions,
             traces=mon.traces, samples=[{"suffix_names": len(SUFFIX_NAMES)}])
    return r


COLLISIONS = [
    ("S: a+ a_1;\na_1: y;\n", "S: a_ONE U;\n@collect\na_ONE: a_ONE a | a;\nU: y;\n"),
    ("S: a* a_0;\na_0: y;\n", "S: a_ZERO U;\na_ZERO: a_ONE {nops} | EMPTY;\n"
     "@collect\na_ONE: a_ONE a | a;\nU: y;\n"),
    ("S: a? a_opt;\na_opt: y;\n", "S: a_OPT U;\n@optional\na_OPT: a | EMPTY;\nU: y;\n"),
    ("S: a_1 a+;\na_1: y;\n", "S: U a_ONE;\n@collect\na_ONE: a_ONE a | a;\nU: y;\n"),
]


def collision_unit():
    mon = Monitor()
    judge = Judge(PROP, KNOWN)
    st = collections.Counter()
    inputs = spaces.strings("ay", 4)
    terms = 'terminals\na: "a";\ny: "y";\n'
    for sug, exp in COLLISIONS:
        compare(judge, st, mon, "collision", sug.splitlines()[0], sug + terms,
                exp + terms, inputs, fid="HELPER-NAME-COLLISION")
    r = judge.result()
    r.update(st)
    r.update(states=len(mon.states), transitions=mon.transitions,
             traces=mon.traces,
             samples=[{"family": "user rule named like a generated helper",
                       "grammars": [c[0] for c in COLLISIONS]}])
    return r


def imported_unit(u):
    """the same shapes with the sugar inside an imported file, or applied in
    the root file to an imported symbol"""
    import os
    import shutil
    import tempfile
    from parglare import Grammar
    from pgmc.drive import quiet
    mon = Monitor()
    judge = Judge(PROP, KNOWN)
    st = collections.Counter()
    inputs = spaces.strings("ab,z", u["nmax"])
    its = all_items()
    samples = []
    for si in u["idx"]:
        b, o, sp_ = its[si]
        for place in ("inside", "applied"):
            if place == "applied" and (b.startswith("(") or not o):
                continue
            e = Exp()
            body = e.item(b, o, sp_, "S")
            exp = "S: " + body + " z;\n" + e.text() + "\n" + ARULE + TERMS + \
                'z: "z";\n'
            d = tempfile.mkdtemp(prefix="pgmc-c13-")
            try:
                if place == "inside":
                    root = "import 'm.pg';\nS: m.X z;\nterminals\nz: \"z\";\n"
                    m = f"X: {b}{o}{sp_};\n" + ARULE + TERMS
                else:
                    sep = sp_.replace("[", "[m.") if sp_ else ""
                    root = (f"import 'm.pg';\nS: m.{b}{o}{sep} z;\n"
                            "terminals\nz: \"z\";\n")
                    m = "X: a b c A C;\n" + ARULE + TERMS
                open(os.path.join(d, "root.pg"), "w").write(root)
                open(os.path.join(d, "m.pg"), "w").write(m)

                def loader():
                    with quiet():
                        g = Grammar.from_file(os.path.join(d, "root.pg"))
                    for f_ in os.listdir(d):
                        if f_.endswith(".pgc"):
                            os.remove(os.path.join(d, f_))
                    return g
                if place == "inside":
                    # X wraps the item: one more unit production in the results
                    exp = "S: X z;\nX: " + body + ";\n" + e.text() + "\n" + \
                        ARULE + TERMS + 'z: "z";\n'
                compare(judge, st, mon, f"imported/{place}",
                        f"{place}: {b}{o}{sp_}", loader, exp, inputs,
                        fid="SUGAR-IMPORTED")
                for f_ in os.listdir(d):
                    if f_.endswith(".pgc"):
                        os.remove(os.path.join(d, f_))
                st["shapes"] += 1
                if not samples:
                    samples.append({"root.pg": root, "m.pg": m, "expansion": exp})
            finally:
                shutil.rmtree(d, ignore_errors=True)
    r = judge.result()
    r.update(st)
    r.update(states=len(mon.states), transitions=mon.transitions,
             traces=mon.traces, samples=samples)
    return r


def run_unit(u):
    if u["fam"] == "imported":
        return imported_unit(u)
    if u["fam"] == "items":
        return items_unit(u)
    if u["fam"] == "greedy":
        return greedy_unit(u)
    if u["fam"] == "suffix":
        return suffix_unit()
    return collision_unit()


def evidence(total, tier, seed, complete):
    cov = {
        "states": total.get("states", 0),
        "transitions": total.get("transitions", 0),
        "traces_validated_against_impl": total.get("traces", 0),
        "evaluations": total.get("evaluations", 0),
        "distinct_nontrivial": total.get("nontrivial", 0),
        "rule": "every rule shape of 1-2 (3 over a reduced item set) items "
                "(base: terminal, nonterminal, group, group with alternative, "
                "group with optional; operator none ? * +; separator none / "
                "terminal / rule) x {Parser default, Parser(prefer_shifts=0), "
                "GLRParser, GLRParser(prefer_shifts=1)} x every input up to "
                "the bound over {a,b,',',z}: construction outcome, accepted "
                "language and results equal those of the documented BNF "
                "expansion (shared helpers) and the language equals the "
                "reference chart; greedy family: same language, single "
                "leftmost-maximal tree; helper-name collision family; "
                "non-trivial = accepted input",
        "samples": total.get("samples", [])[:3],
        "exhaustive": bool(complete),
        "domain": [{k: str(v) for k, v in row.items()}
                   for row in plan(tier, seed)],
        "shapes": total.get("shapes", 0),
        "results_compared_with_documented_values":
            total.get("documented_values", 0),
    }
    return cov, ["reference: pgmc/ref/sugar.py mirrors the 'Syntax "
                 "equivalence' notes incl. helper sharing and {nops}",
                 "mixed greedy/non-greedy uses sharing one helper are outside "
                 "the greedy clause (docs do not define the shared flag)"]


def replay(rec):
    return False, "run the stand-alone script stored in the replay file"
