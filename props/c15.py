"""C15 - parsers are reusable and grammars are not corrupted by building
parsers (shape C: exploration of operation histories on the real code)."""
import collections
import hashlib
import itertools

import parglare
from parglare import GLRParser, Grammar, Parser
from parglare.tables.persist import table_to_serializable

from pgmc import drive
from pgmc.drive import (BudgetExceeded, ForestView, install_state_budget,
                        quiet)
from pgmc.findings import Judge, Known, digest

PROP = "C15"
KNOWN = Known(PROP)
FLOOR = {"quick": 500, "thorough": 5000}
UNIT_TIMEOUT = 1800


class Boom(Exception):
    pass


def rec_n(inp, pos):
    if inp[pos:pos + 1] == "!":
        raise Boom("recognizer")
    if inp[pos:pos + 1] == "n":
        return "n"


def act_n(ctx, value):
    """a stateful action: numbers the tokens of one parse through
    context.extra (documented as per-parse state)"""
    if ctx.extra.get("boom"):
        raise Boom("action")
    k = ctx.extra.get("count", 0) + 1
    ctx.extra["count"] = k
    return f"{value}{k}"


GR = {
    "plain": 'S: S "+" S | n | EMPTY;\nterminals\nn: ;\n',
    # block comments are parsed by the LAYOUT sub-parser token by token, so
    # an unterminated one makes the *sub-parser* raise in the middle of a
    # parse of the main parser
    "layout": ('S: S "+" S | n;\n'
               'LAYOUT: LI | LAYOUT LI | EMPTY;\nLI: WS | CM | BC;\n'
               'BC: co NC cc | co cc;\n'
               'terminals\nn: ;\nWS: /\\s+/;\nCM: /\\/\\/.*/;\n'
               'co: "/*";\ncc: "*/";\nNC: /([^*]|\\*(?!\\/))+/;\n'),
    "named": 'S: l=S "+" r=T | t=T;\nT: n;\nterminals\nn: ;\n',
    # lexical overlap: the finish flags a table was built with matter
    # ("n!n": a token that spans a position where the user recognizer raises:
    # GLR has the long token queued for shifting when the exception escapes)
    "overlap": 'S: S "+" S | n | "nn" | n n | "n!n";\nterminals\nn: ;\n',
}
PROBES = ["", "n", "n+n", "n +n", "+", "n+", "nn", "n+n+n", " n //c\n+n", "n+x+n",
          "nn+n", "n /*c*/+n", "n /*+n"]
ACTIONS = {"n": act_n}


def fresh_grammar(gname):
    with quiet():
        return Grammar.from_string(GR[gname], recognizers={"n": rec_n})


KINDS = {
    "LR": ("lr", {}),
    "LRrec": ("lr", {"error_recovery": True}),
    "SLR": ("lr", {"tables": parglare.SLR}),
    "GLR": ("glr", {}),
    "GLRrec": ("glr", {"error_recovery": True}),
    "GLRslr": ("glr", {"tables": parglare.SLR}),
    "GLRld": ("glr", {"lexical_disambiguation": True}),
}


def mk(g, kind):
    k, kw = KINDS[kind]
    with quiet():
        return (Parser if k == "lr" else GLRParser)(g, actions=ACTIONS, **kw)


def norm(x):
    if isinstance(x, (list, tuple)):
        return tuple(norm(y) for y in x)
    if hasattr(x, "_pg_children_names"):
        return (type(x).__name__, tuple((k, norm(getattr(x, k)))
                                        for k in x._pg_children_names))
    return x


def observe(p, rot=0):
    """outcome of every probe, in the canonical order; the probes are *run*
    starting with probe number rot, so that over the histories that end with
    the same event every probe is the first parse after the history once"""
    n = len(PROBES)
    order = [(rot + i) % n for i in range(n)]
    res = _observe(p, [PROBES[i] for i in order])
    out = [None] * n
    for i, r in zip(order, res):
        out[i] = r
    return out


def _observe(p, probes):
    out = []
    for s in probes:
        try:
            with quiet():
                r = p.parse(s)
            errs = [(e.location.start_position, e.location.end_position)
                    for e in (getattr(p, "errors", None) or [])]
            if isinstance(p, GLRParser):
                fv = ForestView(r.result)
                if fv.cyclic:
                    out.append(("ok", "cyclic", errs))
                else:
                    n = fv.count()
                    out.append(("ok", [r[i].to_str() for i in range(min(n, 20))],
                                str(n), errs,
                                repr(norm(p.call_actions(r[0]))) if n else None))
            else:
                out.append(("ok", repr(norm(r)), errs))
        except parglare.SyntaxError as e:
            out.append(("syn", e.location.start_position))
        except BudgetExceeded:
            out.append(("budget",))
        except Exception as e:      # noqa: BLE001
            out.append(("exc", type(e).__name__))
    return out


def table_digest(p):
    return digest(table_to_serializable(p.table))


EVENTS = ([("build", k) for k in KINDS] +
          [("failbuild", "conflicts"), ("failbuild", "action"),
           ("failbuild", "interrupted"),
           ("parse", "n+n"), ("parse", "n+"), ("parse", ""), ("parse", "+n+"),
           ("parse", "n+x+n"), ("parse", "n +/*n"),
           ("parse-boom-action", "n+n"), ("parse-boom-recognizer", "n+!"),
           ("parse-boom-recognizer", "n!"), ("parse-boom-recognizer", "n!n"),
           ("from_string_ok",), ("from_string_bad_syntax",),
           ("from_string_bad_semantic",)])


def run_event(g, live, ev):
    if ev[0] == "build":
        if len(live) >= 2:
            live.pop(0)
        live.append((ev[1], mk(g, ev[1])))
    elif ev[0] == "failbuild":
        try:
            with quiet():
                if ev[1] == "conflicts":
                    Parser(g, actions=ACTIONS, prefer_shifts=False,
                           prefer_shifts_over_empty=False)
                elif ev[1] == "action":
                    # the same actions plus a name that cannot be resolved
                    # (the statement quantifies over builds "with the same
                    # actions": another actions dict legitimately re-binds
                    # the shared grammar's symbols)
                    Parser(g, actions=dict(ACTIONS, Nope=lambda *a: None))
                else:
                    # an interrupt (KeyboardInterrupt-like) in the middle of
                    # the first table that is constructed
                    old = drive.STATE_BUDGET[0]
                    drive.STATE_BUDGET[0] = 2
                    try:
                        Parser(g, actions=ACTIONS)
                    finally:
                        drive.STATE_BUDGET[0] = old
        except (parglare.exceptions.SRConflicts,
                parglare.exceptions.RRConflicts, parglare.ParserInitError,
                parglare.GrammarError, BudgetExceeded):
            pass
    elif ev[0].startswith("parse"):
        extra = {"boom": True} if ev[0] == "parse-boom-action" else None
        for _, p in live:
            try:
                with quiet():
                    p.parse(ev[1], extra=extra)
            except (parglare.SyntaxError, Boom, BudgetExceeded):
                pass
    elif ev[0] == "from_string_ok":
        with quiet():
            Grammar.from_string('X: "x" X | EMPTY;')
    elif ev[0] == "from_string_bad_syntax":
        try:
            with quiet():
                Grammar.from_string('X: "x" Y | ;;')
        except Exception:           # noqa: BLE001
            pass
    elif ev[0] == "from_string_bad_semantic":
        try:
            with quiet():
                Grammar.from_string('X: "x" Y;')
        except Exception:           # noqa: BLE001
            pass


ORACLE = {}


def oracle(gname, kind):
    k = (gname, kind)
    if k not in ORACLE:
        p = mk(fresh_grammar(gname), kind)
        ORACLE[k] = (observe(p), table_digest(p))
    return ORACLE[k]


def grammar_state(g, live):
    """canonical state - only to report distinct states"""
    return digest([
        [s.name for s in g.productions[0].rhs],
        sorted((k.name, sorted(x.name for x in v))
               for k, v in getattr(g, "_first_sets", {}).items()),
        sorted((n, repr(type(s.action))) for n, s in g.symbols_by_name.items())
        if hasattr(g, "symbols_by_name") else [],
        [(k, table_digest(p), hasattr(p, "errors")) for k, p in live],
    ])


def run_history(gname, hist, rot=0):
    g = fresh_grammar(gname)
    live = []
    for ev in hist:
        try:
            run_event(g, live, ev)
        except Exception as e:      # noqa: BLE001
            return [("event raised", list(map(str, ev)), type(e).__name__,
                     str(e)[:80])], None
    bad = []
    for k, p in live:
        obs, td = oracle(gname, k)
        if observe(p, rot) != obs:
            bad.append(("live parser differs from a fresh one", k))
        if table_digest(p) != td:
            bad.append(("live parser's table differs from a fresh one", k))
    # (SLR is covered as a live parser kind; building it once more after
    # every history would cost a third of the run)
    for k in ("LR", "GLR"):
        try:
            p = mk(g, k)
            obs, td = oracle(gname, k)
            if observe(p) != obs:
                bad.append(("parser built on the used grammar differs", k))
            if table_digest(p) != td:
                bad.append(("table built on the used grammar differs", k))
        except Exception as e:       # noqa: BLE001
            bad.append(("build on the used grammar raised", k,
                        type(e).__name__))
    return bad, grammar_state(g, live)


def plan(tier, seed):
    if tier == "quick":
        return dict(full_depth=3, window_depth=4, window=(seed, 24))
    return dict(full_depth=4, window_depth=5, window=(0, 24))


def units(tier, seed):
    pl = plan(tier, seed)
    out = []
    nev = len(EVENTS)
    for gname in GR:
        for n in range(1, pl["full_depth"] + 1):
            total = nev ** n
            for i in range(0, total, 250):
                out.append(dict(g=gname, n=n, lo=i, hi=min(total, i + 250),
                                mod=None))
        n = pl["window_depth"]
        total = nev ** n
        for i in range(0, total, 4000):
            out.append(dict(g=gname, n=n, lo=i, hi=min(total, i + 4000),
                            mod=list(pl["window"])))
    return out


def worker_init():
    install_state_budget(800)


def decode(idx, n):
    nev = len(EVENTS)
    out = []
    for _ in range(n):
        out.append(EVENTS[idx % nev])
        idx //= nev
    return out[::-1]


def run_unit(u):
    judge = Judge(PROP, KNOWN)
    st = collections.Counter()
    hashes = set()
    samples = []
    for idx in range(u["lo"], u["hi"]):
        if u["mod"] and idx % u["mod"][1] != u["mod"][0] % u["mod"][1]:
            continue
        hist = decode(idx, u["n"])
        bad, gs = run_history(u["g"], hist,
                              (idx // len(EVENTS)) % len(PROBES))
        st["histories"] += 1
        st["transitions"] += len(hist)
        if gs:
            hashes.add(gs)
        if any(e[0] in ("failbuild", "parse-boom-action",
                        "parse-boom-recognizer") for e in hist) and \
                any(e[0] == "build" for e in hist):
            st["nontrivial"] += 1
        if bad:
            judge.deviation("HISTORY", u["g"], "", str(hist),
                            "outcome depends on the history: " + str(bad[0][0]),
                            {"problems": [list(map(str, b)) for b in bad[:5]]},
                            {"grammar": GR[u["g"]],
                             "history": [list(map(str, e)) for e in hist]})
        if not samples and u["lo"] == 0:
            samples.append({"grammar": u["g"],
                            "history": [list(map(str, e)) for e in hist]})
    r = judge.result()
    r.update(st)
    r.update(state_hashes=sorted(hashes), samples=samples)
    return r


def evidence(total, tier, seed, complete):
    cov = {
        "states": len(set(total.get("state_hashes", []))),
        "transitions": total.get("transitions", 0),
        "traces_validated_against_impl": total.get("histories", 0),
        "evaluations": total.get("histories", 0),
        "distinct_nontrivial": total.get("nontrivial", 0),
        "rule": "every sequence of events up to the full depth (and a fully "
                "enumerated residue class of the next depth) over "
                f"{len(EVENTS)} events - build one of 6 parser kinds on the "
                "shared Grammar (at most two live), three failing "
                "constructions (conflicts, unresolvable action, interrupted "
                "table construction), parses that succeed / fail / hit the "
                "empty input / raise from an action / raise from a "
                "recogniser, Grammar.from_string of another valid / "
                "syntactically invalid / semantically invalid text - on three "
                "grammars (plain, LAYOUT, named matches), executed by the real "
                "code without state pruning; afterwards every live parser and "
                "two parsers (LR, GLR) freshly built on the used Grammar must observe "
                "and serialise exactly like parsers built on a fresh Grammar; "
                "states = distinct digests of (augmented production, FIRST "
                "sets, symbol actions, live tables); non-trivial = history "
                "with a build and a failing event",
        "samples": total.get("samples", [])[:3],
        "exhaustive": bool(complete),
        "domain": {k: str(v) for k, v in plan(tier, seed).items()},
        "histories": total.get("histories", 0),
    }
    return cov, ["oracle: fresh Grammar + fresh parser with the same options",
                 "the interrupted construction is simulated by the harness' "
                 "state budget (a BaseException raised inside create_table)"]


def replay(rec):
    case = rec["case"]
    gname = [k for k, v in GR.items() if v == case["grammar"]][0]
    hist = [tuple(e) for e in case["history"]]
    bad, _ = run_history(gname, hist)
    if bad:
        return False, str(bad)
    return True, "no deviation"
