"""C06 - priorities and associativity give the conventional
operator-precedence parse (shape A)."""
import collections
import itertools

from pgmc import spaces
from pgmc.drive import (BudgetExceeded, ForestView, Monitor, build,
                        grammar_from_string, install_state_budget, parse,
                        tree_canon)
from pgmc.findings import Judge, Known
from pgmc.ref.lr1 import LR1
from pgmc.ref.prec import expressions, parse_expr

PROP = "C06"
KNOWN = Known(PROP)
FLOOR = {"quick": 500, "thorough": 5000}
OPS = "+-*/^%"


def weak_orderings(items):
    """all ordered set partitions of items (list of lists = levels, lowest
    priority first)"""
    items = list(items)
    if not items:
        yield []
        return
    first, rest = items[0], items[1:]
    for wo in weak_orderings(rest):
        for i in range(len(wo)):
            yield wo[:i] + [wo[i] + [first]] + wo[i + 1:]
        for i in range(len(wo) + 1):
            yield wo[:i] + [[first]] + wo[i:]


def tables(k, full_orders=True):
    """every operator table with k operators: (levels, assocs, alt order,
    base first?, style)"""
    ops = list(OPS[:k])
    out = []
    for wo in weak_orderings(ops):
        wo = [sorted(l) for l in wo]
        for assocs in itertools.product(("left", "right"), repeat=len(wo)):
            orders = (list(itertools.permutations(ops)) if full_orders
                      else [tuple(ops), tuple(reversed(ops))])
            for order in orders:
                for base_first in (False, True):
                    out.append((wo, assocs, order, base_first, "prod"))
            if len(wo) == 1:
                out.append((wo, assocs, tuple(ops), False, "rule"))
            else:
                # rule-level default = one of the levels; the productions of
                # that level inherit it, the others override it (completely,
                # or only the priority when the associativity is the same)
                for d in range(len(wo)):
                    for order in orders[:2] + orders[-1:]:
                        out.append((wo, assocs, order, False, f"mixed:{d}"))
    return out


def render(tbl, offset=0):
    wo, assocs, order, base_first, style = tbl
    info = {}
    for li, (lvl, a) in enumerate(zip(wo, assocs)):
        for op in lvl:
            info[op] = (li + 1 + offset, a)
    base = ['"(" E ")"', '"n"']
    if style == "rule":
        a = assocs[0]
        alts = [f'E "{op}" E' for op in order] + base
        text = f"E {{{a}, {1 + offset}}}: " + " | ".join(alts) + ";"
    elif style.startswith("mixed:"):
        d = int(style[6:])
        da, dp = assocs[d], d + 1 + offset
        alts = []
        for op in order:
            p, a = info[op]
            if (p, a) == (dp, da):
                alts.append(f'E "{op}" E')
            elif a == da:
                alts.append(f'E "{op}" E {{{p}}}')
            else:
                alts.append(f'E "{op}" E {{{a}, {p}}}')
        text = f"E {{{da}, {dp}}}: " + " | ".join(alts + base) + ";"
    else:
        alts = [f'E "{op}" E {{{info[op][1]}, {info[op][0]}}}' for op in order]
        alts = base + alts if base_first else alts + base
        text = "E: " + " | ".join(alts) + ";"
    return text, info


def plan(tier, seed):
    if tier == "quick":
        return [dict(fam="ops", k=1, maxops=3), dict(fam="ops", k=2, maxops=3),
                dict(fam="ops", k=3, maxops=3),
                dict(fam="ops", k=4, maxops=2, win=(seed, 40)),
                dict(fam="annot", space="k2", options=9),
                dict(fam="annot", space="k3", options=6, win=(seed, 20))]
    return [dict(fam="ops", k=1, maxops=4), dict(fam="ops", k=2, maxops=4),
            dict(fam="ops", k=3, maxops=4), dict(fam="ops", k=4, maxops=3),
            dict(fam="ops", k=5, maxops=2, restricted=True),
            dict(fam="ops", k=6, maxops=2, restricted=True, win=(0, 16)),
            dict(fam="annot", space="k2", options=9),
            dict(fam="annot", space="k3", options=6)]


ANN_SPACES = {
    "k2": dict(nts=("S", "A"), ts=("a", "b"), r=2, k=2),
    "k3": dict(nts=("S", "A"), ts=("a", "b"), r=2, k=3),
}


def units(tier, seed):
    out = []
    for row in plan(tier, seed):
        if row["fam"] == "ops":
            n = len(tables(row["k"], not row.get("restricted")))
            win = row.get("win")
            idxs = list(range(n)) if win is None else list(
                spaces.window(n, win[0], win[1]))
            for i in range(0, len(idxs), 12):
                out.append(dict(fam="ops", k=row["k"], maxops=row["maxops"],
                                restricted=bool(row.get("restricted")),
                                idx=idxs[i:i + 12]))
        else:
            n = len(spaces.grammars(**ANN_SPACES[row["space"]]))
            win = row.get("win")
            idxs = list(range(n)) if win is None else list(
                spaces.window(n, win[0], win[1]))
            for i in range(0, len(idxs), 10):
                out.append(dict(fam="annot", space=row["space"],
                                options=row["options"], idx=idxs[i:i + 10]))
    return out


def worker_init():
    install_state_budget(600)


def ops_unit(u):
    mon = Monitor()
    judge = Judge(PROP, KNOWN)
    st = collections.Counter()
    tbls = tables(u["k"], not u["restricted"])
    exprs = expressions(OPS[:u["k"]], u["maxops"])
    samples = []
    for ti in u["idx"]:
        tbl = tbls[ti]
        # priority numbering: 1..L, 9..(straddling the default 10), and
        # zero-based 0..L-1 (a priority of exactly 0 is falsy in Python)
        canonical = (tbl[2] == tuple(OPS[:u["k"]]) and not tbl[3])
        for offset in ((0, 8, -1, 300) if u["k"] <= 2 else
                       (0, -1) if canonical else (0,)):
            text, info = render(tbl, offset)
            # SLR tables resolve the same conflicts from FOLLOW sets that
            # all items share
            for tk in (('LALR', 'SLR') if u['k'] <= 3 and offset == 0
                       else ('LALR',)):
                cfg = f"ops{u['k']}/off{offset}" + ("/SLR" if tk == "SLR" else "")
                gk = text
                try:
                    g = grammar_from_string(text)
                    lr = build("lr", g, mon, tag=(ti, offset, tk), tables=tk,
                               prefer_shifts=False,
                               prefer_shifts_over_empty=False, ws="")
                except (Exception, BudgetExceeded) as e:    # noqa: BLE001
                    judge.deviation(None, cfg, gk, "",
                                    "Parser does not construct for a fully "
                                    "annotated operator grammar",
                                    {"type": type(e).__name__},
                                    {"grammar": text, "parser": "lr",
                                     "options": {"prefer_shifts": False,
                                                 "prefer_shifts_over_empty": False}})
                    continue
                glr = build("glr", grammar_from_string(text), mon,
                            tag=(ti, offset, "g", tk), tables=tk, ws="")
                st["tables"] += 1
                for toks in exprs:
                    s = "".join(toks)
                    want = parse_expr(list(toks), info)
                    case = {"grammar": text, "parser": "lr", "input": s,
                            "options": {"prefer_shifts": False, "ws": "", "tables": tk,
                                        "prefer_shifts_over_empty": False}}
                    o = parse(lr, s, mon)
                    st["evaluations"] += 1
                    if len(toks) >= 5:
                        st["nontrivial"] += 1
                    if o.kind != "ok" or o.value != want:
                        judge.deviation(None, cfg, gk, s,
                                        "Parser result is not the operator-"
                                        "precedence tree",
                                        {"got": o.value if o.kind == "ok"
                                         else o.brief(), "want": want}, case)
                    og = parse(glr, s, mon)
                    st["evaluations"] += 1
                    if og.kind != "ok":
                        judge.deviation(None, cfg, gk, s, "GLRParser fails",
                                        {"o": og.brief()}, dict(case, parser="glr"))
                        continue
                    fv = ForestView(og.value.result)
                    n = fv.count()
                    if n != 1 or glr.call_actions(og.value[0]) != want:
                        judge.deviation(None, cfg, gk, s,
                                        "GLRParser does not return exactly the "
                                        "operator-precedence tree",
                                        {"trees": str(n), "want": want},
                                        dict(case, parser="glr"))
            if not samples:
                samples.append({"grammar": text, "expressions": len(exprs),
                                "largest": "".join(exprs[-1])})
    r = judge.result()
    r.update(st)
    r.update(states=len(mon.states), transitions=mon.transitions,
             traces=mon.traces, samples=samples)
    return r


def annotate(prods, nts, ann):
    by = {}
    for (l, r), a in zip(prods, ann):
        body = " ".join(r) if r else "EMPTY"
        meta = [x for x in a if x is not None]
        if meta:
            body += " {" + ", ".join(str(x) for x in meta) + "}"
        by.setdefault(l, []).append(body)
    lines = [f"{l}: " + " | ".join(by[l]) + ";" for l in nts if l in by]
    used = sorted({x for _, r in prods for x in r if x in ("a", "b")})
    if used:
        lines.append("terminals")
        lines += [f'{t}: "{t}";' for t in used]
    return "\n".join(lines) + "\n"


def annot_unit(u):
    sp = ANN_SPACES[u["space"]]
    nts = sp["nts"]
    gs = spaces.grammars(**sp)
    mon = Monitor()
    judge = Judge(PROP, KNOWN)
    st = collections.Counter()
    inputs = spaces.strings("ab", 4)
    prios = (5, 10, 15) if u["options"] == 9 else (5, 15)
    opts = [(a, p) for a in (None, "left", "right") for p in prios]
    samples = []
    for gi in u["idx"]:
        prods = spaces.ordered_prods(gs[gi], nts)
        R = LR1(prods, nts[0], sp["ts"])
        if R.lalr_conflicts():
            continue
        gk = spaces.gkey(prods, nts)
        base_text = spaces.render_grammar(gs[gi], nts, "M0")
        try:
            base = build("lr", grammar_from_string(base_text), mon, tag=(gi, "b"),
                         prefer_shifts=False, prefer_shifts_over_empty=False,
                         ws="", build_tree=True)
        except (Exception, BudgetExceeded):    # noqa: BLE001
            continue      # C05's subject
        st["lalr1_grammars"] += 1
        want = {}
        for s in inputs:
            o = parse(base, s, mon)
            want[s] = tree_canon(o.value) if o.kind == "ok" else o.kind
        for ann in itertools.product(opts, repeat=len(prods)):
            text = annotate(prods, nts, ann)
            cfg = "annot"
            try:
                lr = build("lr", grammar_from_string(text), mon,
                           tag=(gi, ann), prefer_shifts=False,
                           prefer_shifts_over_empty=False, ws="",
                           build_tree=True)
                glr = build("glr", grammar_from_string(text), mon,
                            tag=(gi, ann, "g"), ws="")
            except (Exception, BudgetExceeded) as e:   # noqa: BLE001
                judge.deviation(None, cfg, text, "",
                                "annotated LALR(1) grammar does not construct",
                                {"type": type(e).__name__}, {"grammar": text})
                continue
            st["tables"] += 1
            for s in inputs:
                case = {"grammar": text, "parser": "lr", "input": s,
                        "options": {"prefer_shifts": False, "ws": "",
                                    "prefer_shifts_over_empty": False}}
                o = parse(lr, s, mon)
                st["evaluations"] += 1
                got = tree_canon(o.value) if o.kind == "ok" else o.kind
                if got != want[s]:
                    judge.deviation(None, cfg, text, s,
                                    "priorities/associativities changed the "
                                    "parse of an LALR(1) grammar",
                                    {"got": got, "want": want[s]}, case)
                og = parse(glr, s, mon)
                if og.kind == "ok":
                    gt = ForestView(og.value.result).trees(10)
                    gotg = gt[0] if gt and len(gt) == 1 else ("trees", str(gt))
                else:
                    gotg = og.kind
                if gotg != want[s]:
                    judge.deviation(None, cfg, text, s,
                                    "priorities/associativities changed the "
                                    "GLR result of an LALR(1) grammar",
                                    {"got": gotg, "want": want[s]},
                                    dict(case, parser="glr"))
                if want[s] not in ("syntax",):
                    st["nontrivial"] += 1
        if not samples:
            samples.append({"grammar": gk, "annotations": len(opts) ** len(prods)})
    r = judge.result()
    r.update(st)
    r.update(states=len(mon.states), transitions=mon.transitions,
             traces=mon.traces, samples=samples)
    return r


def run_unit(u):
    return ops_unit(u) if u["fam"] == "ops" else annot_unit(u)


def evidence(total, tier, seed, complete):
    cov = {
        "states": total.get("states", 0),
        "transitions": total.get("transitions", 0),
        "traces_validated_against_impl": total.get("traces", 0),
        "evaluations": total.get("evaluations", 0),
        "distinct_nontrivial": total.get("nontrivial", 0),
        "rule": "family 1: every operator table (every weak ordering of k "
                "operators into priority levels x left/right per level x every "
                "order of the alternatives x base alternatives first/last x "
                "production-level / rule-level meta-data) x every well-formed "
                "expression up to the operator bound incl. parentheses, LR and "
                "GLR, against precedence climbing; family 2: every reference-"
                "LALR(1) grammar x every assignment of {none,left,right} x "
                "priorities to its productions x all inputs <= 4; non-trivial "
                "= expression with >= 2 operators / accepted input",
        "samples": total.get("samples", [])[:6],
        "exhaustive": bool(complete),
        "domain": [{k: str(v) for k, v in row.items()}
                   for row in plan(tier, seed)],
        "operator_and_annotated_tables": total.get("tables", 0),
        "lalr1_grammars": total.get("lalr1_grammars", 0),
    }
    return cov, ["reference: precedence climbing (pgmc/ref/prec.py); "
                 "canonical LR(1) for the LALR(1) test",
                 "k = 5, 6 operators only with the canonical and reversed "
                 "alternative order (declared restricted sub-space)"]


def replay(rec):
    return False, "run the stand-alone script stored in the replay file"
