"""C08 - parse trees are positionally faithful and lossless (shape A)."""
import collections

from pgmc import spaces
from pgmc.drive import (BudgetExceeded, ForestView, Monitor, build,
                        grammar_from_string, install_state_budget, parse,
                        tree_nodes)
from pgmc.findings import Judge, Known
from pgmc.ref.cfg import CharRef

PROP = "C08"
KNOWN = Known(PROP)
FLOOR = {"quick": 1000, "thorough": 5000}
CHUNK = 30
SPACES = {
    "k3": dict(nts=("S", "A"), ts=("a", "b"), r=2, k=3),
    "k4only": dict(nts=("S", "A"), ts=("a", "b"), r=2, k=4, kmin=4),
}
LAYOUT_WS = ("LAYOUT: LayoutItem | LAYOUT LayoutItem | EMPTY;\n"
             "LayoutItem: WS;\n")
LAYOUT_WS_T = "WS: /\\s+/;\n"
KTREES = 24


def plan(tier, seed):
    if tier == "quick":
        return [
            dict(space="k3", lexmap="M0", layout="ws", alpha="ab ", nmax=4),
            dict(space="k3", lexmap="M0", layout="LAYOUT", alpha="ab ", nmax=3),
            dict(space="k3", lexmap="M3", layout="ws", alpha="ab ", nmax=3),
            dict(space="k3", lexmap="M5", layout="ws", alpha="ab ", nmax=4,
                 win=(seed, 2)),
            dict(space="k4only", win=(seed, 40), lexmap="M0", layout="ws",
                 alpha="ab ", nmax=4),
        ]
    return [
        dict(space="k3", lexmap="M0", layout="ws", alpha="ab ", nmax=5),
        dict(space="k3", lexmap="M0", layout="LAYOUT", alpha="ab ", nmax=4),
        dict(space="k3", lexmap="M3", layout="ws", alpha="ab ", nmax=4),
        dict(space="k3", lexmap="M5", layout="ws", alpha="ab ", nmax=5),
        dict(space="k4only", lexmap="M0", layout="ws", alpha="ab ", nmax=4),
        dict(space="k4only", lexmap="M0", layout="LAYOUT", alpha="ab ", nmax=3),
    ]


def units(tier, seed):
    out = []
    for row in plan(tier, seed):
        n = len(spaces.grammars(**SPACES[row["space"]]))
        win = row.get("win")
        idxs = list(range(n)) if win is None else list(
            spaces.window(n, win[0], win[1]))
        for i in range(0, len(idxs), CHUNK):
            u = {k: v for k, v in row.items() if k != "win"}
            u["idx"] = idxs[i:i + CHUNK]
            out.append(u)
    return out


def worker_init():
    install_state_budget(400)


def with_layout(text, layout):
    if layout == "ws":
        return text
    if "terminals" in text:
        head, _, tail = text.partition("terminals\n")
        return head + LAYOUT_WS + "terminals\n" + tail + LAYOUT_WS_T
    return text + LAYOUT_WS + "terminals\n" + LAYOUT_WS_T


def node_problems(root, s, ws):
    """structural position invariants + losslessness on one user-visible
    tree (Tree/LazyTree/NodeNonTerm)"""
    n = len(s)
    probs = []
    leaves = []
    for node, par in tree_nodes(root):
        st, en = node.start_position, node.end_position
        name = node.symbol.name
        if not (isinstance(st, int) and isinstance(en, int)):
            probs.append(("non-integer position", name, st, en))
            continue
        if not (0 <= st <= en <= n):
            probs.append(("out of bounds", name, st, en))
        if node.is_term():
            if node.value != s[st:en]:
                probs.append(("value != input[start:end]", name, st, en,
                              node.value))
            leaves.append(node)
        else:
            prev_end = None
            for c in node:
                cs, ce = c.start_position, c.end_position
                if not (isinstance(cs, int) and isinstance(ce, int)):
                    continue
                if cs < st or ce > en:
                    probs.append(("child outside parent", name, st, en,
                                  c.symbol.name, cs, ce))
                if prev_end is not None and cs < prev_end:
                    probs.append(("siblings overlap or out of order", name,
                                  c.symbol.name, cs, prev_end))
                prev_end = ce
    # losslessness
    text = ""
    for lf in leaves:
        lc = lf.layout_content
        text += (lc if isinstance(lc, str) else "") + lf.value
    if not s.startswith(text):
        probs.append(("layout+values is not a prefix of the input", text))
    elif any(ch not in ws for ch in s[len(text):]):
        probs.append(("input lost after the last leaf", s[len(text):]))
    return probs


def sppf_problems(fv, s):
    """the same invariants on every packed alternative of a big forest"""
    n = len(s)
    probs = set()
    for nd in fv.order:
        alts = nd.possibilities if hasattr(nd, "possibilities") else [nd]
        for a in alts:
            st, en = a.start_position, a.end_position
            if not (isinstance(st, int) and isinstance(en, int)
                    and 0 <= st <= en <= n):
                probs.add(("bad span", a.symbol.name, st, en))
                continue
            if a.is_term():
                if a.value != s[st:en]:
                    probs.add(("value != input[start:end]", a.symbol.name))
                continue
            prev_end = None
            for c in a.children:
                cs, ce = c.start_position, c.end_position
                if not (isinstance(cs, int) and isinstance(ce, int)):
                    continue
                if cs < st or ce > en:
                    probs.add(("child outside parent", a.symbol.name, st, en,
                               cs, ce))
                if prev_end is not None and cs < prev_end:
                    probs.add(("siblings overlap or out of order",
                               a.symbol.name, cs, prev_end))
                prev_end = ce
    return sorted(probs, key=repr)


def rec_actions(nts, terms):
    """recording actions: each returns (symbol, start, end, children)"""
    acts = {}

    def mk_nt(name):
        def act(ctx, nodes):
            return (name, ctx.start_position, ctx.end_position, tuple(nodes))
        return act

    def mk_t(name):
        def act(ctx, value):
            return (name, ctx.start_position, ctx.end_position, value)
        return act
    for nme in nts:
        acts[nme] = mk_nt(nme)
    for t in terms:
        acts[t] = mk_t(t)
    return acts


def tree_rec(node):
    """the term recording actions must produce for this tree"""
    if node.is_term():
        return (node.symbol.name, node.start_position, node.end_position,
                node.value)
    return (node.symbol.name, node.start_position, node.end_position,
            tuple(tree_rec(c) for c in node))


def named_text(prods, nts, lm, layout):
    """the same grammar with every right-hand-side symbol named, so that the
    default `obj` action creates objects carrying _pg_start/_end_position"""
    by = {}
    for l, r in prods:
        by.setdefault(l, []).append(
            " ".join(f"n{j}={x}" for j, x in enumerate(r)) if r else "EMPTY")
    lines = [f"{l}: " + " | ".join(by[l]) + ";" for l in nts if l in by]
    text = "\n".join(lines) + "\n"
    base = spaces.render_grammar(prods, nts, lm)
    if "terminals" in base:
        text += "terminals\n" + base.partition("terminals\n")[2]
    return with_layout(text, layout)


def obj_positions(x, node, out):
    """pairs (object span, node span) for every object / node pair"""
    if hasattr(x, "_pg_start_position") and not node.is_term():
        out.append(((x._pg_start_position, x._pg_end_position),
                    (node.start_position, node.end_position)))
        kids = list(node)
        names = x._pg_children_names
        for j, c in enumerate(kids):
            nm = f"n{j}"
            if nm in names:
                obj_positions(getattr(x, nm), c, out)


def run_unit(u):
    sp = SPACES[u["space"]]
    nts, ts = sp["nts"], sp["ts"]
    gs = spaces.grammars(**sp)
    lm = u["lexmap"]
    ws = " "
    inputs = spaces.strings(u["alpha"], u["nmax"])
    mon = Monitor()
    judge = Judge(PROP, KNOWN)
    st = collections.Counter()
    samples = []
    for gi in u["idx"]:
        prods = gs[gi]
        gk = spaces.gkey(prods, nts)
        ordered = spaces.ordered_prods(prods, nts)
        text = with_layout(spaces.render_grammar(prods, nts, lm), u["layout"])
        ref = CharRef(ordered, nts[0], spaces.LEXMAPS[lm], ws=ws)
        used_nts = sorted({l for l, _ in ordered})
        used_ts = sorted({x for _, r in ordered for x in r if x in ts})
        parsers = []
        objp = None
        try:
            g = grammar_from_string(text)
            parsers.append(("glr", build("glr", g, mon, tag=(gi, "glr"), ws=ws),
                            build("glr", grammar_from_string(text), None, ws=ws,
                                  actions=rec_actions(used_nts, used_ts))))
        except (Exception, BudgetExceeded):     # noqa: BLE001
            st["no_parser"] += 1
        for ps in (False, True):
            try:
                o = dict(prefer_shifts=ps, prefer_shifts_over_empty=ps, ws=ws)
                p = build("lr", grammar_from_string(text), mon,
                          tag=(gi, "lr", ps), build_tree=True, **o)
                ga = grammar_from_string(text)
                acts = rec_actions(used_nts, used_ts)
                pa = build("lr", ga, mon, tag=(gi, "lra", ps), actions=acts, **o)
                pt = build("lr", ga, mon, tag=(gi, "lrt", ps), actions=acts,
                           build_tree=True, **o)
                parsers.append((f"lr/ps={int(ps)}", p, (pa, pt)))
                if ps and any(r for _, r in ordered) and \
                        all(len(set(r)) == len(r) or True for _, r in ordered):
                    try:
                        ntext = named_text(ordered, nts, lm, u["layout"])
                        po = build("lr", grammar_from_string(ntext), mon,
                                   tag=(gi, "obj"), **o)
                        pot = build("lr", grammar_from_string(ntext), mon,
                                    tag=(gi, "objt"), build_tree=True, **o)
                        objp = (po, pot)
                    except (Exception, BudgetExceeded):   # noqa: BLE001
                        objp = None
            except (Exception, BudgetExceeded):  # noqa: BLE001
                pass
        for s in inputs:
            if not ref.analyse(s).sentence:
                continue
            if objp is not None:
                oo = parse(objp[0], s, mon)
                ot = parse(objp[1], s, mon)
                if oo.kind == "ok" and ot.kind == "ok":
                    pairs = []
                    obj_positions(oo.value, ot.value, pairs)
                    bad = [p_ for p_ in pairs if p_[0] != p_[1]]
                    st["obj_nodes"] += len(pairs)
                    if bad:
                        judge.deviation(
                            "LR-POSITIONS", f"{lm}/{u['layout']}/obj", gk, s,
                            "tree positions wrong: object created by `obj` "
                            "carries other positions than the tree node",
                            {"pairs": [list(map(str, b)) for b in bad[:5]]},
                            {"grammar": named_text(ordered, nts, lm, u["layout"]),
                             "parser": "lr", "options": {"ws": ws}, "input": s})
            for name, p, pa in parsers:
                cfg = f"{lm}/{u['layout']}/{name}"
                case = {"grammar": text, "parser": name.split("/")[0],
                        "options": {"ws": ws}, "input": s}
                o = parse(p, s, mon)
                if o.kind != "ok":
                    continue            # acceptance is C01/C04's subject
                st["evaluations"] += 1
                probs = []
                if name == "glr":
                    f = o.value
                    fv = ForestView(f.result)
                    cnt = fv.count()
                    if fv.cyclic or cnt > KTREES:
                        probs = [("sppf",) + p_ for p_ in sppf_problems(fv, s)]
                        trees = [f.get_tree(0)]
                    else:
                        trees = [f[i] for i in range(cnt)]
                        for t in trees:
                            probs.extend(node_problems(t, s, ws + "\n"))
                    # positions seen by actions (call_actions on GLR trees)
                    if not probs:
                        oa = parse(pa, s, None)
                        if oa.kind == "ok":
                            fa = oa.value
                            fva = ForestView(fa.result)
                            if not fva.cyclic and fva.count() <= KTREES:
                                for i in range(fva.count()):
                                    t = fa[i]
                                    if pa.call_actions(t) != tree_rec(t):
                                        probs.append((
                                            "call_actions sees other positions "
                                            "than the tree", i))
                                        break
                else:
                    t = o.value
                    probs.extend(node_problems(t, s, ws + "\n"))
                    if not probs:
                        want = tree_rec(t)
                        pa_, pt_ = pa
                        oa = parse(pa_, s, mon)
                        ot = parse(pt_, s, mon)
                        if oa.kind != "ok" or oa.value != want:
                            probs.append(("on-the-fly actions see other "
                                          "positions than the tree",))
                        elif ot.kind != "ok" or \
                                pt_.call_actions(ot.value) != want:
                            probs.append(("call_actions sees other positions "
                                          "than the tree",))
                if any(ch in ws for ch in s) or "EMPTY" in gk:
                    st["nontrivial"] += 1
                if probs:
                    probs = sorted(set(probs), key=repr)
                    kinds = sorted({p_[0] if p_[0] != "sppf" else p_[1]
                                    for p_ in probs})
                    judge.deviation(
                        "GLR-POSITIONS" if name == "glr" else "LR-POSITIONS",
                        cfg, gk, s, "tree positions wrong: " + ", ".join(kinds),
                        {"problems": probs[:12]}, case)
        if not samples:
            samples.append({"grammar": gk, "lexmap": lm, "layout": u["layout"],
                            "parsers": [x[0] for x in parsers],
                            "inputs": f"all sentences among {len(inputs)} "
                            f"strings over {u['alpha']!r} up to {u['nmax']}"})
    r = judge.result()
    r.update(st)
    r.update(states=len(mon.states), transitions=mon.transitions,
             traces=mon.traces, samples=samples)
    return r


def evidence(total, tier, seed, complete):
    cov = {
        "states": total.get("states", 0),
        "transitions": total.get("transitions", 0),
        "traces_validated_against_impl": total.get("traces", 0),
        "evaluations": total.get("evaluations", 0),
        "distinct_nontrivial": total.get("nontrivial", 0),
        "rule": "every grammar x layout mode (ws / LAYOUT rule) x {GLRParser, "
                "Parser(prefer_shifts on/off) when it constructs} x every "
                "sentence up to the bound (leading, inner, trailing, double "
                "layout); on every node of every tree (all trees when <= 24, "
                "else every packed alternative): integer in-bounds spans, "
                "value == input[start:end], sibling order, child within "
                "parent, losslessness over the leaves, and positions seen by "
                "on-the-fly actions / call_actions; non-trivial = sentence "
                "containing layout or grammar with an empty production",
        "samples": total.get("samples", [])[:6],
        "exhaustive": bool(complete),
        "domain": [{k: str(v) for k, v in row.items()}
                   for row in plan(tier, seed)],
    }
    cov["object_nodes_compared"] = total.get("obj_nodes", 0)
    return cov, ["ignore_case is outside this property's quantifier",
                 "bounded: grammars <= k productions, inputs <= n characters"]


def replay(rec):
    return False, "run the stand-alone script stored in the replay file"
