"""C14 - layout is invisible: changing layout between tokens never changes
the parse (shape A, metamorphic)."""
import collections
import itertools

from pgmc import spaces
from pgmc.drive import (BudgetExceeded, ForestView, Monitor, build,
                        grammar_from_string, install_state_budget, parse)
from pgmc.findings import Judge, Known

PROP = "C14"
KNOWN = Known(PROP)
FLOOR = {"quick": 1000, "thorough": 5000}
SPACES = {
    "k2": dict(nts=("S", "A"), ts=("a", "b"), r=2, k=2),
    "k3": dict(nts=("S", "A"), ts=("a", "b"), r=2, k=3),
    "k4only": dict(nts=("S", "A"), ts=("a", "b"), r=2, k=4, kmin=4),
}
WS_FILL = ("", " ", "  ", "\n")
# runs of layout far longer than any token (fixed-size windows, recursion)
LONG_FILL = ("", " ", " " * 33, "\n" * 70, " \n" * 150)
CM_FILL = WS_FILL + ("/*a*/", "//b\n", " /* /*a*/ */ ")
LAYOUT_CM = (
    "LAYOUT: LayoutItem | LAYOUT LayoutItem | EMPTY;\n"
    "LayoutItem: WS | Comment;\n"
    "Comment: '/*' CorNCs '*/' | LineComment;\n"
    "CorNCs: CorNC | CorNCs CorNC | EMPTY;\n"
    "CorNC: Comment | NotComment | WS;\n")
LAYOUT_CM_T = (
    "WS: /\\s+/;\n"
    "LineComment: /\\/\\/.*/;\n"
    "NotComment: /((\\*[^\\/])|[^\\s*\\/]|\\/[^\\*])+/;\n")
LAYOUT_EQ = "LAYOUT: WS | EMPTY;\n"
LAYOUT_EQ_T = "WS: /[ \\n]+/;\n"
# (ws string, the same characters as a regex class, input alphabet): ws is a
# plain set of characters whatever they would mean in a regular expression
WS_SETS = [
    (" \n", "WS: /[ \\n]+/;\n", "ab \n"),
    ("^ ", "WS: /[\\^ ]+/;\n", "ab^ "),
    ("\\ ", "WS: /[\\\\ ]+/;\n", "ab\\ "),
    ("]-[ ", "WS: /[\\]\\-\\[ ]+/;\n", "a][-"),
]


def plan(tier, seed):
    if tier == "quick":
        return [
            dict(fam="relayout", space="k3", mode="ws", ntok=2, ntok_light=3),
            dict(fam="relayout", space="k2", mode="comments", ntok=2,
                 ntok_light=0),
            dict(fam="relayout", space="k3", mode="comments", ntok=1,
                 ntok_light=2, win=(seed, 8)),
            dict(fam="relayout", space="k2", mode="comments-prio", ntok=2,
                 ntok_light=0),
            dict(fam="relayout", space="k2", mode="ws-long", ntok=2,
                 ntok_light=0),
            dict(fam="equiv", space="k3", nmax=4, win=(seed, 3)),
            dict(fam="equiv", space="k3", nmax=3, win=(seed, 24), wsset=1),
            dict(fam="equiv", space="k3", nmax=3, win=(seed, 24), wsset=2),
            dict(fam="equiv", space="k3", nmax=3, win=(seed, 24), wsset=3),
        ]
    return [
        dict(fam="relayout", space="k3", mode="ws", ntok=3, ntok_light=0),
        dict(fam="relayout", space="k4only", mode="ws", ntok=2, ntok_light=3,
             win=(0, 4)),
        dict(fam="relayout", space="k3", mode="comments", ntok=2, ntok_light=3),
        dict(fam="relayout", space="k3", mode="comments-prio", ntok=2,
             ntok_light=0, win=(0, 4)),
        dict(fam="relayout", space="k3", mode="ws-long", ntok=2, ntok_light=0,
             win=(0, 4)),
        dict(fam="equiv", space="k3", nmax=4),
        dict(fam="equiv", space="k4only", nmax=4, win=(0, 4)),
        dict(fam="equiv", space="k3", nmax=4, wsset=1),
        dict(fam="equiv", space="k3", nmax=4, wsset=2),
        dict(fam="equiv", space="k3", nmax=4, wsset=3),
    ]


def units(tier, seed):
    out = []
    for row in plan(tier, seed):
        n = len(spaces.grammars(**SPACES[row["space"]]))
        win = row.get("win")
        idxs = list(range(n)) if win is None else list(
            spaces.window(n, win[0], win[1]))
        for i in range(0, len(idxs), 20):
            u = {k: v for k, v in row.items() if k != "win"}
            u["idx"] = idxs[i:i + 20]
            out.append(u)
    return out


def worker_init():
    install_state_budget(600)


def add_layout(text, rules, terms):
    if "terminals" in text:
        head, _, tail = text.partition("terminals\n")
        return head + rules + "terminals\n" + tail + terms
    return text + rules + "terminals\n" + terms


def shape(n):
    """tree without positions: production ids and leaf (name, value)"""
    if n.is_term():
        return (n.symbol.name, n.value)
    return (n.production.prod_id, tuple(shape(c) for c in n))


def full(n):
    if n.is_term():
        return (n.symbol.name, n.value, n.start_position, n.end_position,
                n.layout_content)
    return (n.production.prod_id, n.start_position, n.end_position,
            tuple(full(c) for c in n))


def observe(kind, p, s, mon, view):
    o = parse(p, s, mon)
    if o.kind == "ok":
        if kind == "lr":
            return ("ok", view(o.value))
        fv = ForestView(o.value.result)
        if fv.cyclic:
            return ("ok", "cyclic", len(fv.order))
        n = fv.count()
        if n > 24:
            return ("ok", "many", str(n))
        return ("ok", tuple(sorted((view(o.value[i]) for i in range(n)),
                                   key=repr)))
    if o.kind == "syntax":
        return ("syntax", o.exc.location.start_position) if view is full \
            else ("syntax",)
    if o.kind == "budget":
        return ("budget",)
    return (o.kind, o.brief())


def relayout_unit(u):
    sp = SPACES[u["space"]]
    nts = sp["nts"]
    gs = spaces.grammars(**sp)
    mon = Monitor()
    judge = Judge(PROP, KNOWN)
    st = collections.Counter()
    fills = WS_FILL if u["mode"] == "ws" else \
        LONG_FILL if u["mode"] == "ws-long" else CM_FILL
    samples = []
    toks_all = []
    for n in range(0, max(u["ntok"], u["ntok_light"]) + 1):
        toks_all += list(itertools.product("ab", repeat=n))
    for gi in u["idx"]:
        prods = gs[gi]
        gk = spaces.gkey(prods, nts)
        text = spaces.render_grammar(prods, nts, "M0")
        if u["mode"] == "comments":
            text = add_layout(text, LAYOUT_CM, LAYOUT_CM_T)
        elif u["mode"] == "comments-prio":
            # the same layout with different priorities on its terminals
            # (as one needs them to tell '///' doc comments from '//'): the
            # layout sub-parser's scanner has to go through its priority
            # levels with the end-of-layout pseudo token on offer
            text = add_layout(text, LAYOUT_CM, LAYOUT_CM_T.replace(
                "LineComment: /\\/\\/.*/;", "LineComment: /\\/\\/.*/ {15};"
            ).replace("WS: /\\s+/;", "WS: /\\s+/ {5};"))
            assert "{15}" in text and "{5}" in text
        parsers = []
        for tk in ("LALR", "SLR"):
            try:
                parsers.append((f"glr/{tk}", "glr", build(
                    "glr", grammar_from_string(text), mon, tag=(gi, tk),
                    tables=tk, ws=" \n")))
            except (Exception, BudgetExceeded):   # noqa: BLE001
                st["no_parser"] += 1
            try:
                parsers.append((f"lr/{tk}", "lr", build(
                    "lr", grammar_from_string(text), mon, tag=(gi, tk, "lr"),
                    tables=tk, ws=" \n", build_tree=True)))
            except (Exception, BudgetExceeded):   # noqa: BLE001
                pass
        for toks in toks_all:
            n = len(toks)
            if n <= u["ntok"]:
                fl = fills
            elif n <= u["ntok_light"]:
                fl = ("", " ")
            else:
                continue
            base = " ".join(toks)
            for name, kind, p in parsers:
                cfg = f"{u['mode']}/{name}"
                want = observe(kind, p, base, mon, shape)
                for gaps in itertools.product(fl, repeat=n + 1):
                    # two adjacent single-character tokens stay two tokens
                    s = gaps[0] + "".join(t + g for t, g in zip(toks, gaps[1:]))
                    if s == base:
                        continue
                    got = observe(kind, p, s, mon, shape)
                    st["evaluations"] += 1
                    if want[0] == "ok":
                        st["nontrivial"] += 1
                    if got != want:
                        judge.deviation(
                            "RELAYOUT", cfg, gk, s,
                            "changing layout changed acceptance or the result",
                            {"base": base, "want": str(want)[:300],
                             "got": str(got)[:300]},
                            {"grammar": text, "parser": kind,
                             "options": {"tables": name.split("/")[1],
                                         "ws": " \n"}, "input": s})
        if not samples:
            samples.append({"grammar": gk, "mode": u["mode"],
                            "fillers": list(fills),
                            "parsers": [x[0] for x in parsers]})
    r = judge.result()
    r.update(st)
    r.update(states=len(mon.states), transitions=mon.transitions,
             traces=mon.traces, samples=samples)
    return r


def equiv_unit(u):
    """ws=' \\n'  versus a LAYOUT rule matching exactly runs of those
    characters (or nothing)"""
    sp = SPACES[u["space"]]
    nts = sp["nts"]
    gs = spaces.grammars(**sp)
    mon = Monitor()
    judge = Judge(PROP, KNOWN)
    st = collections.Counter()
    ws, lterm, alpha = WS_SETS[u.get("wsset", 0)]
    inputs = spaces.strings(alpha, u["nmax"])
    samples = []
    for gi in u["idx"]:
        prods = gs[gi]
        gk = spaces.gkey(prods, nts)
        text = spaces.render_grammar(prods, nts, "M0")
        ltext = add_layout(text, LAYOUT_EQ, lterm)
        pairs = []
        for kind in ("glr", "lr"):
            for tk in ("LALR", "SLR"):
                kw = {"build_tree": True} if kind == "lr" else {}
                built = []
                for txt, tg, opt in ((text, "ws", {"ws": ws}), (ltext, "L", {})):
                    try:
                        built.append(build(kind, grammar_from_string(txt), mon,
                                           tag=(gi, kind, tk, tg), tables=tk,
                                           **opt, **kw))
                    except BudgetExceeded:
                        built.append("budget")
                    except Exception as e:   # noqa: BLE001
                        built.append(type(e).__name__)
                if not any(isinstance(x, str) for x in built):
                    pairs.append((f"{kind}/{tk}", kind, built[0], built[1]))
                elif "budget" not in built and \
                        isinstance(built[0], str) != isinstance(built[1], str):
                    judge.deviation(
                        "WS-VS-LAYOUT", f"equiv/{kind}/{tk}/build", gk, "",
                        "a parser constructs with the ws parameter but not "
                        "with the equivalent LAYOUT rule, or the reverse",
                        {"ws": built[0] if isinstance(built[0], str) else "ok",
                         "layout": built[1] if isinstance(built[1], str)
                         else "ok"},
                        {"grammar": ltext, "parser": kind, "ws": ws,
                         "options": {"tables": tk}})
        for s in inputs:
            for name, kind, a, b in pairs:
                x = observe(kind, a, s, mon, full)
                y = observe(kind, b, s, mon, full)
                st["evaluations"] += 1
                if x[0] == "ok" and any(ch in s for ch in ws):
                    st["nontrivial"] += 1
                if x != y:
                    judge.deviation(
                        "WS-VS-LAYOUT", f"equiv/{name}" + (
                            f"/ws{u['wsset']}" if u.get("wsset") else ""), gk, s,
                        "ws parameter and the equivalent LAYOUT rule disagree",
                        {"ws": str(x)[:300], "layout": str(y)[:300]},
                        {"grammar": ltext, "parser": kind, "ws": ws,
                         "options": {"tables": name.split("/")[1]}, "input": s})
        if not samples:
            samples.append({"grammar": gk, "family": "ws vs LAYOUT",
                            "inputs": len(inputs)})
    r = judge.result()
    r.update(st)
    r.update(states=len(mon.states), transitions=mon.transitions,
             traces=mon.traces, samples=samples)
    return r


def run_unit(u):
    return relayout_unit(u) if u["fam"] == "relayout" else equiv_unit(u)


def evidence(total, tier, seed, complete):
    cov = {
        "states": total.get("states", 0),
        "transitions": total.get("transitions", 0),
        "traces_validated_against_impl": total.get("traces", 0),
        "evaluations": total.get("evaluations", 0),
        "distinct_nontrivial": total.get("nontrivial", 0),
        "rule": "family 1: every grammar x {Parser, GLRParser} x {LALR, SLR} x "
                "every token string up to the bound x every assignment of a "
                "filler (ws characters; with the comment LAYOUT also line and "
                "nested block comments containing token characters) to each "
                "gap, compared with the single-space rendering (metamorphic); "
                "family 2: every string <= 4 over {a,b,' ','\\n'} with ws=' \\n' "
                "versus LAYOUT: /[ \\n]+/ | EMPTY, compared on results, node "
                "positions, layout_content and error positions; non-trivial = "
                "accepted input with re-layout",
        "samples": total.get("samples", [])[:4],
        "exhaustive": bool(complete),
        "domain": [{k: str(v) for k, v in row.items()}
                   for row in plan(tier, seed)],
    }
    return cov, ["single-character terminals: token boundaries do not depend "
                 "on layout", "bounded as listed"]


def replay(rec):
    return False, "run the stand-alone script stored in the replay file"
