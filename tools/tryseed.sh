#!/bin/sh
# tools/tryseed.sh <patch.diff> <ID> [<ID> ...]   - applies a seeded fault to
# /repo, runs the quick checks, and ALWAYS restores /repo afterwards.
patch="$1"; shift
cd /repo || exit 2
git diff --quiet -- parglare || { echo "/repo has local changes"; exit 2; }
git apply "$patch" || { echo "patch does not apply"; exit 2; }
trap 'git -C /repo checkout -- parglare' EXIT INT TERM
cd /verif
for id in "$@"; do
  out=$(timeout 1500 ./check "$id" --tier "${TIER:-quick}" 2>&1)
  rc=$?
  nv=$(echo "$out" | grep -c '^VIOLATION')
  echo "== $id rc=$rc violation_lines=$nv"
  echo "$out" | grep -A1 '^VIOLATION' | head -4 | cut -c1-260
  echo "$out" | grep 'violating cases\|HARNESS' | head -3
done
