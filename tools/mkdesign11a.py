#!/venv/bin/python
"""Regenerates the table of DESIGN.md section 11a from seeded/*/meta.json."""
import glob
import json
import re

rows = []
for d in sorted(glob.glob("/verif/seeded/*/meta.json")):
    m = json.load(open(d))
    rows.append((m["id"], m["property"], ", ".join(m.get("detected_by", [])) or "none",
                 m.get("history", "").replace("\n", " ").replace("|", "/")))
tbl = "| id | property | caught by (quick tier) | how |\n|---|---|---|---|\n" + \
    "\n".join(f"| `{a}` | {b} | {c} | {d} |" for a, b, c, d in rows)
missed = sum(1 for r in rows if "missed" in r[3])
s = open("/verif/DESIGN.md").read()
i = s.index("| id | property | caught by (quick tier) | how |")
j = s.index("Summary: ", i)
k = s.index("\n\n", j)
summary = (f"Summary: {len(rows)} faults, all caught by a quick tier now; {missed} of them were\n"
           "*missed* by the first version of the responsible check and led to a\n"
           "strengthening that is described in the last column (new grammar sets and\n"
           "lexeme maps, new events in a history alphabet, independent oracles where\n"
           "sugared and expanded grammar - or all evaluation routes - shared the faulty\n"
           "code, marks on conflict-free productions, sub-result based filters, declared\n"
           "keyword names, dotted import paths, a third nonterminal in C05's quick tier,\n"
           "...). None of the strengthenings loosened an oracle.")
s = s[:i] + tbl + "\n\n" + summary + s[k:]
open("/verif/DESIGN.md", "w").write(s)
print(len(rows), "rows;", missed, "initially missed")
