#!/venv/bin/python
"""Builds the witness maps of known findings from a complete thorough run in
record mode.  Run by hand, reviewed, committed; never run by a check.

    tools/mkwitness.py C02 [--tier thorough]

Only deviation classes that known_findings.json lists for the property with
kind=witness_map are written; everything else stays a violation.
"""
import collections
import json
import os
import subprocess
import sys

ROOT = os.path.dirname(os.path.dirname(os.path.abspath(__file__)))


def main():
    prop = sys.argv[1].upper()
    tier = "thorough"
    if "--tier" in sys.argv:
        tier = sys.argv[sys.argv.index("--tier") + 1]
    rec = f"/tmp/pgmc-record-{prop}.json"
    env = dict(os.environ, PGMC_RECORD="1")
    subprocess.run([os.path.join(ROOT, "check"), prop, "--tier", tier,
                    "--record", rec], env=env, check=False)
    data = json.load(open(rec))
    os.remove(rec)
    idx = json.load(open(os.path.join(ROOT, "known_findings.json")))
    listed = {f["id"]: f for f in idx["findings"]
              if prop in f["properties"] and f["kind"] == "witness_map"
              and f["file"].startswith(f"known/{prop}-")}
    by = collections.defaultdict(lambda: collections.defaultdict(
        lambda: collections.defaultdict(dict)))
    counts = collections.Counter()
    other = collections.Counter()
    for fid, cfg, gk, inp, dg in data:
        if fid in listed:
            by[fid][cfg][gk][inp] = dg
            counts[fid] += 1
        else:
            other[fid] += 1
    for fid, f in listed.items():
        path = os.path.join(ROOT, f["file"])
        os.makedirs(os.path.dirname(path), exist_ok=True)
        with open(path, "w") as fh:
            json.dump({"finding": fid, "property": prop,
                       "generated_from": f"./check {prop} --tier {tier} (record mode)",
                       "count": counts[fid],
                       "format": "witnesses[cfg][grammar][input] = digest of the exact deviation",
                       "witnesses": by.get(fid, {})}, fh, sort_keys=True,
                      separators=(",", ":"))
        print(f"{fid}: {counts[fid]} witnesses -> {f['file']} "
              f"({os.path.getsize(path) // 1024} KiB)")
    if other:
        print("NOT listed (remain violations):", dict(other))


if __name__ == "__main__":
    main()
