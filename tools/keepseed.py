#!/venv/bin/python
"""tools/keepseed.py <seed-id> <property> <dir with patch.diff demo.py notes.md> <check ids...>

Confirms an independently produced seeded fault in a scratch worktree of /repo
HEAD (patch applies, existing suite passes with it, demo passes without and
fails with it), runs the named quick checks against it (apply to /repo, run,
restore) and files it under /verif/seeded/<seed-id>/ with meta.json.
"""
import json
import os
import shutil
import subprocess
import sys
import time

sid, prop, src = sys.argv[1:4]
checks = sys.argv[4:]
ROOT = "/verif"
wt = f"/tmp/wt/keep-{sid}"
meta = {"id": sid, "property": prop, "confirmed_at": time.strftime("%F %T")}


def sh(cmd, **kw):
    return subprocess.run(cmd, shell=True, capture_output=True, text=True, **kw)


sh(f"git -C /repo worktree remove --force {wt}")
r = sh(f"git -C /repo worktree add -q {wt} HEAD")
assert r.returncode == 0, r.stderr
try:
    env = dict(os.environ, PYTHONPATH=wt, PYTHONDONTWRITEBYTECODE="1")
    demo = os.path.join(src, "demo.py")
    r0 = sh(f"cd {wt} && timeout 300 /venv/bin/python {demo}", env=env)
    meta["demo_without_patch_rc"] = r0.returncode
    ap = sh(f"git -C {wt} apply {src}/patch.diff")
    meta["patch_applies_to_head"] = ap.returncode == 0
    if ap.returncode != 0:
        print("PATCH DOES NOT APPLY:", ap.stderr)
        sys.exit(1)
    r1 = sh(f"cd {wt} && timeout 300 /venv/bin/python {demo}", env=env)
    meta["demo_with_patch_rc"] = r1.returncode
    t = sh(f"cd {wt} && timeout 1500 /venv/bin/python -m pytest tests/func -q "
           "-p no:cacheprovider --deselect tests/func/pglr -q 2>&1 | tail -3",
           env=env)
    meta["suite_with_patch"] = t.stdout.strip().splitlines()[-1] if t.stdout.strip() else "?"
    meta["suite_passes_with_patch"] = ("failed" not in t.stdout and "error" not in t.stdout.lower())
finally:
    sh(f"git -C /repo worktree remove --force {wt}")

res = {}
for c in checks:
    r = sh(f"{ROOT}/tools/tryseed.sh {src}/patch.diff {c}")
    line = [l for l in r.stdout.splitlines() if l.startswith("== ")]
    res[c] = line[0] if line else r.stdout[-200:]
meta["quick_checks"] = res
meta["detected_by"] = [c for c, l in res.items() if "rc=1" in l]
notes = os.path.join(src, "notes.md")
meta["needs_to_manifest"] = open(notes).read()[:1500] if os.path.exists(notes) else ""
dst = os.path.join(ROOT, "seeded", sid)
os.makedirs(dst, exist_ok=True)
for f in ("patch.diff", "demo.py", "notes.md"):
    if os.path.exists(os.path.join(src, f)):
        shutil.copy(os.path.join(src, f), dst)
meta["what_i_ran"] = ("scratch worktree of /repo HEAD: demo without patch, git apply, "
                      "demo with patch, pytest tests/func (pglr deselected); then "
                      "tools/tryseed.sh patch <checks> (apply to /repo, quick check, restore)")
json.dump(meta, open(os.path.join(dst, "meta.json"), "w"), indent=1)
print(json.dumps({k: meta[k] for k in ("demo_without_patch_rc", "demo_with_patch_rc",
                                       "suite_with_patch", "detected_by")}))
