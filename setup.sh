#!/bin/sh
# Offline setup: nothing to build. Verifies that parglare is importable from
# /repo's working tree through /venv (editable install).
set -e
cd "$(dirname "$0")"
chmod +x check
mkdir -p evidence replays
PYTHONPATH="$PWD" /venv/bin/python - <<'PY'
import os, parglare
assert os.path.realpath(parglare.__file__).startswith("/repo/"), parglare.__file__
import pgmc.drive, pgmc.ref.cfg
print("pgmc ready; parglare from", parglare.__file__)
PY
