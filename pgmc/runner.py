"""Generic entry point shared by all property checks."""
import argparse
import importlib
import json
import os
import subprocess
import sys
import time

from . import explore
from .findings import ROOT, digest

EVID = os.path.join(ROOT, "evidence")
REPLAYS = os.path.join(ROOT, "replays")
SCHEMA = "/root/.vp/EVIDENCE.schema.json"

SCRIPT = '''# stand-alone reproduction (parglare API only); run with /venv/bin/python
import json, signal, sys
signal.alarm(30)       # printing a cyclic forest does not terminate
from parglare import Grammar, Parser, GLRParser, SLR, LALR
case = json.loads({case!r})
opts = dict(case.get("options", {{}}))
if opts.get("dynamic_filter") == "accept_all":
    opts["dynamic_filter"] = lambda ctx, fs, ts, action, prod, subs: None if action is None else True
if "tables" in opts: opts["tables"] = {{"SLR": SLR, "LALR": LALR}}[opts["tables"]]
g = Grammar.from_string(case["grammar"])
p = (GLRParser if case.get("parser", "glr") == "glr" else Parser)(g, **opts)
try:
    r = p.parse(case["input"])
    print("result:", r.to_str() if hasattr(r, "to_str") else r)
    if hasattr(r, "solutions"): print("solutions:", r.solutions)
except Exception as e:
    print("raised:", type(e).__name__, e)
print("expected by the reference:", {expect!r})
'''


def write_replay(prop, v):
    d = os.path.join(REPLAYS, prop)
    os.makedirs(d, exist_ok=True)
    name = digest([v["what"], v["case"]]) + ".json"
    path = os.path.join(d, name)
    rec = dict(v)
    case = v["case"]
    if isinstance(case, dict) and "grammar" in case and "input" in case \
            and isinstance(case.get("input"), str) and "script" not in rec:
        rec["script"] = SCRIPT.format(case=json.dumps(case, default=str),
                                      expect=v.get("what", ""))
    with open(path, "w") as f:
        json.dump(rec, f, indent=1, default=str)
    return path


def validate_evidence(path):
    if not os.path.exists(SCHEMA):
        return None
    code = ("import json,sys,jsonschema;"
            "jsonschema.validate(json.load(open(sys.argv[1])),"
            "json.load(open(sys.argv[2])))")
    try:
        r = subprocess.run(["python3-vt", "-c", code, path, SCHEMA],
                           capture_output=True, text=True, timeout=60)
    except (OSError, subprocess.TimeoutExpired):
        return None
    if r.returncode != 0:
        return r.stderr[-2000:]
    return None


def replay_unit(mod, rec):
    """generic replay: re-execute the unit of the exploration that contained
    the case (twice - the observations must be identical) and look for the
    same deviation (same description and digest)"""
    if hasattr(mod, "worker_init"):
        mod.worker_init()
    found = []
    for _ in range(2):
        try:
            res = mod.run_unit(rec["unit"])
        except Exception as e:      # noqa: BLE001
            res = explore.library_crash(mod, rec["unit"], e)
            if res is None:
                raise
        found.append(sorted((v["what"], v["digest"])
                            for v in res.get("violations", [])
                            if v["digest"] == rec["digest"]
                            and v["what"] == rec["what"]))
    if found[0] != found[1]:
        return False, f"NONDETERMINISTIC replay: {found}"
    if found[0]:
        return False, f"reproduced: {rec['what']} [{rec['digest']}]\n" \
            f"case: {json.dumps(rec['case'], default=str)[:600]}"
    return True, "the recorded deviation does not occur"


def main(prop, argv=None):
    ap = argparse.ArgumentParser(prog=f"check {prop}")
    ap.add_argument("--tier", default=os.environ.get("VERIF_TIER") or "quick",
                    choices=["quick", "thorough"])
    ap.add_argument("--replay")
    ap.add_argument("--workers", type=int,
                    default=int(os.environ.get("PGMC_WORKERS", "0")) or None)
    ap.add_argument("--inline", action="store_true")
    ap.add_argument("--record", help="write every deviation to this file "
                    "(tools/mkwitness; never used by registered commands)")
    ap.add_argument("--limit-units", type=int)
    args = ap.parse_args(argv)
    seed = int(os.environ.get("VERIF_SEED", "0") or 0)
    modname = f"props.{prop.lower()}"
    mod = importlib.import_module(modname)

    if args.replay:
        rec = json.load(open(args.replay))
        if "unit" in rec:
            ok, text = replay_unit(mod, rec)
        else:
            ok, text = mod.replay(rec)
        print(text)
        if not ok:
            print(f"VIOLATION property={prop} replay={args.replay}")
            return 1
        print(f"replay of {args.replay}: property holds on this case")
        return 0

    t0 = time.time()
    units = mod.units(args.tier, seed)
    if args.limit_units:
        units = units[:args.limit_units]
    planned = len(units)

    def progress(done, total):
        if done % max(1, total // 10) == 0:
            print(f"  [{prop}] {done}/{total} units  {time.time() - t0:.0f}s",
                  file=sys.stderr, flush=True)

    if args.inline:
        results, failures = explore.run_inline(modname, units)
    else:
        sup = explore.Supervisor(modname, nworkers=args.workers,
                                 unit_timeout=getattr(mod, "UNIT_TIMEOUT", 600),
                                 mem_gb=getattr(mod, "MEM_GB", 6))
        results, failures = sup.run(units, progress)

    total = {}
    for idx in sorted(results):
        for v in results[idx].get("violations", []):
            v["unit"] = units[idx]        # makes the case replayable
        explore.merge(total, results[idx])
    wall = time.time() - t0

    harness_errors = [(i, f) for i, f in failures.items()
                      if f[0] == "harness-error"]
    died = [(i, f) for i, f in failures.items() if f[0] == "worker-died"]
    violations = list(total.get("violations", []))
    nviol = total.get("violation_count", 0)
    for i, f in died:
        violations.append({"property": prop, "what": "worker-died",
                           "case": {"unit": units[i]}, "detail": f[1]})
        nviol += 1

    if args.record:
        with open(args.record, "w") as f:
            json.dump(total.get("recorded", []), f)
        print(f"recorded {len(total.get('recorded', []))} deviations "
              f"to {args.record}")

    complete = not failures and len(results) == planned
    cov, assumptions = mod.evidence(total, args.tier, seed, complete)
    cov.setdefault("units_planned", planned)
    cov["units_completed"] = len(results)
    cov["known_findings_matched"] = total.get("known_seen", {})
    ev = {"property_id": prop, "tier": args.tier, "seed": seed,
          "level": "model_checking", "coverage": cov,
          "assumptions": assumptions, "wall_s": round(wall, 2),
          "violations": nviol}
    os.makedirs(EVID, exist_ok=True)
    epath = os.path.join(EVID, f"{prop}.json")
    with open(epath, "w") as f:
        json.dump(ev, f, indent=1, default=str)
    bad = validate_evidence(epath)

    print(f"[{prop}] tier={args.tier} seed={seed} units={len(results)}/{planned} "
          f"states={cov.get('states')} transitions={cov.get('transitions')} "
          f"traces={cov.get('traces_validated_against_impl')} "
          f"evaluations={cov.get('evaluations')} "
          f"nontrivial={cov.get('distinct_nontrivial')} "
          f"exhaustive={cov.get('exhaustive')} wall={wall:.1f}s")
    rc = 0
    known = mod.KNOWN
    for fid, n in sorted(total.get("known_seen", {}).items()):
        print(f"KNOWN-FINDING: property={prop} {fid}: {known.title(fid)} "
              f"({n} listed witnesses seen)")
    for line in total.get("known_lines", []):
        print(line)
    seen = set()
    for v in violations[:300]:
        path = write_replay(prop, v)
        if path in seen:
            continue
        seen.add(path)
        if len(seen) <= 20:
            print(f"VIOLATION property={prop} replay={path}")
            print(f"   {v['what']}: {json.dumps(v['case'], default=str)[:300]}")
    if nviol:
        print(f"[{prop}] {nviol} violating cases in total")
        rc = 1
    if harness_errors:
        for i, f in harness_errors[:3]:
            print(f"HARNESS ERROR in unit {i}: {f[1]}", file=sys.stderr)
        rc = rc or 2
    if bad:
        print("HARNESS ERROR: evidence file does not validate:\n" + bad,
              file=sys.stderr)
        rc = rc or 2
    floor = getattr(mod, "FLOOR", {}).get(args.tier, 2)
    if not args.limit_units and cov.get("distinct_nontrivial", 0) < floor and not rc:
        print(f"HARNESS ERROR: vacuous run (distinct_nontrivial="
              f"{cov.get('distinct_nontrivial')} < {floor})", file=sys.stderr)
        rc = 2
    return rc
