"""Finite spaces shared by the property checks (DESIGN.md section 5).

Everything here is deterministic and indexable: the same arguments always give
the same list in the same order, in every process.
"""
import functools
import itertools

# ---------------------------------------------------------------------------
# 5.1 grammars G(N, T, r, k)


def all_productions(nts, ts, r):
    syms = list(nts) + list(ts)
    rhss = [()]
    for n in range(1, r + 1):
        rhss += list(itertools.product(syms, repeat=n))
    return [(l, rhs) for l in nts for rhs in rhss]


def _productive_reachable(prods, nts, ts):
    tset = set(ts)
    prod = set()
    ch = True
    while ch:
        ch = False
        for l, r in prods:
            if l not in prod and all(x in tset or x in prod for x in r):
                prod.add(l)
                ch = True
    for l, r in prods:
        if l not in prod:
            return False
        for x in r:
            if x not in tset and x not in prod:
                return False
    start = nts[0]
    seen = {start}
    st = [start]
    while st:
        x = st.pop()
        for l, r in prods:
            if l == x:
                for y in r:
                    if y not in tset and y not in seen:
                        seen.add(y)
                        st.append(y)
    return all(l in seen for l, _ in prods)


@functools.lru_cache(maxsize=None)
def grammars(nts=("S", "A"), ts=("a", "b"), r=2, k=3, kmin=1):
    """All sets of kmin..k distinct productions; S has a production, every
    nonterminal used is defined, reachable and productive.  Each grammar is a
    tuple of (lhs, rhs) ordered by rule (S, A, B) then enumeration order."""
    allp = all_productions(nts, ts, r)
    out = []
    for n in range(kmin, k + 1):
        for combo in itertools.combinations(allp, n):
            if combo[0][0] != nts[0]:
                continue
            if not _productive_reachable(combo, nts, ts):
                continue
            out.append(combo)
    return out


@functools.lru_cache(maxsize=None)
def grammars_long(nts=("S", "A"), ts=("a",), r=2, k=3, rlong=4):
    """Grammars with exactly one production whose right-hand side has
    `rlong` symbols plus 0..k-1 productions with at most `r` symbols; same
    well-formedness conditions and ordering as grammars()."""
    short = all_productions(nts, ts, r)
    syms = list(nts) + list(ts)
    longs = [(l, rhs) for l in nts
             for rhs in itertools.product(syms, repeat=rlong)]
    order = {p: i for i, p in enumerate(all_productions(nts, ts, rlong))}
    out = []
    for n in range(0, k):
        for combo in itertools.combinations(short, n):
            for lp in longs:
                g = tuple(sorted(combo + (lp,), key=order.__getitem__))
                if g[0][0] != nts[0]:
                    continue
                if not _productive_reachable(g, nts, ts):
                    continue
                out.append(g)
    return out


def space(sp):
    """the list of grammars of a space description (dict)"""
    if "rlong" in sp:
        return grammars_long(**sp)
    return grammars(**sp)


def grammar_count(nts=("S", "A"), ts=("a", "b"), r=2, k=3):
    return len(grammars(nts, ts, r, k))


def is_acyclic(prods):
    """No nonterminal derives itself (X =>+ X).  Uses nullability: X -> alpha Y
    beta with alpha, beta nullable gives the unit edge X -> Y."""
    nts = {l for l, _ in prods}
    nullable = set()
    ch = True
    while ch:
        ch = False
        for l, r in prods:
            if l not in nullable and all(x in nullable for x in r):
                nullable.add(l)
                ch = True
    edges = {n: set() for n in nts}
    for l, r in prods:
        for i, y in enumerate(r):
            if y in nts and all(x in nullable for x in r[:i] + r[i + 1:]):
                edges[l].add(y)
    # transitive closure
    for n in nts:
        seen = set()
        st = list(edges[n])
        while st:
            y = st.pop()
            if y == n:
                return False
            if y in seen:
                continue
            seen.add(y)
            st.extend(edges[y])
    return True


# ---------------------------------------------------------------------------
# 5.2 lexeme maps.  kind 's' = string recogniser, 'r' = regex recogniser.

LEXMAPS = {
    "M0": {"a": ("s", "a"), "b": ("s", "b")},
    # M0 with different terminal priorities: the tokenisation is the same
    # (the terminals never match at the same position), the scanner's
    # priority cut-off is exercised
    "M0p": {"a": ("s", "a", "{15}"), "b": ("s", "b")},
    "M1": {"a": ("s", "a"), "b": ("s", "aa")},
    "M2": {"a": ("s", "a"), "b": ("r", "a|b")},
    "M3": {"a": ("s", "a"), "b": ("r", "a+")},
    "M4": {"a": ("r", "ab?"), "b": ("s", "b")},
    # a regex that runs across layout characters: heads of two tokenisations
    # meet with different layout in front of the same token
    "M5": {"a": ("r", "ab?"), "b": ("r", "[ab][ab ]*")},
    # three-terminal plain map
    "M0c": {"a": ("s", "a"), "b": ("s", "b"), "c": ("s", "c")},
}


def render_grammar(prods, nts=("S", "A", "B"), lexmap="M0", extra=""):
    """Grammar text in parglare's language.  Terminals are always declared in
    the terminals section under their abstract names, so that the abstract
    grammar is independent of the lexeme map."""
    lm = LEXMAPS[lexmap] if isinstance(lexmap, str) else lexmap
    by = {}
    for l, r in prods:
        by.setdefault(l, []).append(r)
    lines = []
    for l in nts:
        if l in by:
            alts = [" ".join(r) if r else "EMPTY" for r in by[l]]
            lines.append(f"{l}: " + " | ".join(alts) + ";")
    used = []
    for _, r in prods:
        for x in r:
            if x in lm and x not in used:
                used.append(x)
    if extra:
        lines.append(extra)
    if used:
        lines.append("terminals")
    for t in sorted(used):
        kind, text = lm[t][0], lm[t][1]
        meta = " " + lm[t][2] if len(lm[t]) > 2 else ""
        if kind == "s":
            lines.append(f'{t}: "{text}"{meta};')
        else:
            lines.append(f"{t}: /{text}/{meta};")
    return "\n".join(lines) + "\n"


def ordered_prods(prods, nts=("S", "A", "B")):
    """Productions in the order parglare numbers them (prod_id - 1): rule
    order S, A, B and alternatives in text order."""
    out = []
    for l in nts:
        for ll, r in prods:
            if ll == l:
                out.append((ll, r))
    return out


# ---------------------------------------------------------------------------
# 5.4 inputs


@functools.lru_cache(maxsize=None)
def strings(alphabet, n, nmin=0):
    out = []
    for m in range(nmin, n + 1):
        for w in itertools.product(alphabet, repeat=m):
            out.append("".join(w))
    return out


def window(seq_len, seed, modulus):
    """Indices of the residue class `seed mod modulus` of range(seq_len)."""
    return range(seed % modulus, seq_len, modulus)


def chunks(n, size):
    return [(i, min(i + size, n)) for i in range(0, n, size)]


def gkey(prods, nts=("S", "A", "B")):
    """compact, human-readable identity of an abstract grammar"""
    by = {}
    for l, r in prods:
        by.setdefault(l, []).append(" ".join(r) if r else "EMPTY")
    return ";".join(f"{l}:" + "|".join(by[l]) for l in nts if l in by)
