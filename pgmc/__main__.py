import sys

from .runner import main

if len(sys.argv) < 2:
    print("usage: check <ID> [--tier quick|thorough] [--replay file]")
    sys.exit(2)
sys.exit(main(sys.argv[1].upper(), sys.argv[2:]))
