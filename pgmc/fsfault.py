"""File-system interposer for the cache write (DESIGN.md section 8 C12,
shape D).  The names `open` and `os` seen by parglare.tables.persist,
parglare.tables and parglare.parser are replaced by recording proxies; one
clean run yields the operation list of the write; a crash can then be injected
before any operation and inside any write at any byte offset.  The on-disk
state after the crash is what the real file system holds, in two variants:

  flushed    every byte handed to write() before the crash is on disk
  unflushed  files still open at the crash keep only what was explicitly
             flushed/closed (a rename of a still-open file publishes a file
             that may be shorter than what was written)

Process crash only - no power-loss reordering of completed operations.
"""
import builtins
import os as _os


class Crash(BaseException):
    pass


class _FProxy:
    def __init__(self, fs, real, path):
        self.fs, self.real, self.path = fs, real, path
        self.written = 0
        self.flushed = 0
        self.closed = False

    def write(self, data):
        fs = self.fs
        n = len(data)
        k = fs.point("write", n)
        if k is not None:               # crash inside this write after k bytes
            if k:
                self.real.write(data[:k])
                self.written += k
            self.real.flush()
            raise Crash()
        self.real.write(data)
        self.real.flush()               # deterministic: real file = written
        self.written += n
        return n

    def flush(self):
        if self.fs.point("flush", 0) is not None:
            raise Crash()
        self.real.flush()
        self.flushed = self.written

    def close(self):
        if self.closed:
            return
        if self.fs.point("close", 0) is not None:
            raise Crash()
        self.real.close()
        self.flushed = self.written
        self.closed = True

    def __enter__(self):
        return self

    def __exit__(self, *a):
        self.close()
        return False

    def __getattr__(self, n):
        return getattr(self.real, n)


class _OsProxy:
    def __init__(self, fs):
        self._fs = fs

    def replace(self, src, dst):
        if self._fs.point("replace", 0) is not None:
            raise Crash()
        _os.replace(src, dst)
        self._fs.renamed(src, dst)

    def rename(self, src, dst):
        if self._fs.point("rename", 0) is not None:
            raise Crash()
        _os.rename(src, dst)
        self._fs.renamed(src, dst)

    def remove(self, p):
        if self._fs.point("remove", 0) is not None:
            raise Crash()
        _os.remove(p)

    unlink = remove

    def fsync(self, fd):
        if self._fs.point("fsync", 0) is not None:
            raise Crash()
        for f in self._fs.files:
            try:
                if not f.closed and f.real.fileno() == fd:
                    f.flushed = f.written
            except Exception:      # noqa: BLE001
                pass
        return _os.fsync(fd)

    def __getattr__(self, n):
        return getattr(_os, n)


class FaultFS:
    """use:  with FaultFS(watch_dir) as fs: ... ; fs.ops  (clean recording)
             with FaultFS(watch_dir, crash=(op_index, byte_offset)) as fs: ...
    crash=(k, 0): crash before operation k; crash=(k, b>0): inside write k
    after b of its bytes."""

    MODULES = ("parglare.tables.persist", "parglare.tables", "parglare.parser")

    def __init__(self, watch_dir, crash=None):
        self.dir = _os.path.realpath(watch_dir)
        self.crash = crash
        self.ops = []
        self.files = []
        self.crashed = False

    # -- hooks ---------------------------------------------------------
    def point(self, kind, n):
        idx = len(self.ops)
        self.ops.append((kind, n))
        if self.crash is not None and not self.crashed and idx == self.crash[0]:
            self.crashed = True
            return min(self.crash[1], n)
        return None

    def renamed(self, src, dst):
        for f in self.files:
            if _os.path.realpath(f.path) == _os.path.realpath(src):
                f.path = dst

    def _open(self, path, mode="r", *a, **kw):
        p = _os.path.realpath(str(path))
        if any(c in mode for c in "wax+") and p.startswith(self.dir):
            if self.point("open-w", 0) is not None:
                raise Crash()
            real = builtins.open(path, mode, *a, **kw)
            f = _FProxy(self, real, str(path))
            self.files.append(f)
            return f
        return builtins.open(path, mode, *a, **kw)

    # -- context ---------------------------------------------------------
    def __enter__(self):
        import importlib
        self._saved = []
        osp = _OsProxy(self)
        for name in self.MODULES:
            m = importlib.import_module(name)
            self._saved.append((m, m.__dict__.get("open", None),
                                m.__dict__.get("os", None)))
            m.open = self._open
            if "os" in m.__dict__:
                m.os = osp
        return self

    def __exit__(self, et, ev, tb):
        for m, o, osm in self._saved:
            if o is None:
                m.__dict__.pop("open", None)
            else:
                m.open = o
            if osm is not None:
                m.os = osm
        for f in self.files:
            try:
                f.real.close()
            except Exception:      # noqa: BLE001
                pass
        return False

    def drop_unflushed(self):
        """variant 'unflushed': truncate files that were still open at the
        crash to what had been flushed"""
        changed = False
        for f in self.files:
            if not f.closed and f.flushed < f.written and _os.path.exists(f.path):
                with builtins.open(f.path, "r+b") as fh:
                    fh.truncate(f.flushed)
                changed = True
        return changed


def crash_points(ops, byte_stride=1, op_stride=1):
    """all (op index, byte offset) crash points for a recorded op list"""
    pts = []
    for k, (kind, n) in enumerate(ops):
        if k % op_stride == 0 or kind != "write":
            pts.append((k, 0))
        if kind == "write":
            for b in range(1, n):
                if b % byte_stride == 0:
                    pts.append((k, b))
    pts.append((len(ops), 0))         # after the last operation
    return pts
