"""Sharded exhaustive driver with worker supervision (DESIGN.md section 3/4).

A property module exposes
    units(tier, seed) -> list of JSON-able unit descriptors (the whole space,
                         cut into pieces; its size is known before the run)
    run_unit(unit)    -> dict of counters / lists (merged by `merge`)
Units are handed to supervised worker processes one at a time.  A worker that
dies or spends longer than `unit_timeout` on one unit is killed; the unit is
re-run once in a fresh process to confirm and is then reported as
`worker-died`.  `exhaustive` is only claimed if every unit completed.
"""
import importlib
import multiprocessing as mp
import multiprocessing.connection as mpc
import os
import resource
import signal
import time
import traceback


def merge(total, r):
    for k, v in r.items():
        if isinstance(v, bool):
            total[k] = total.get(k, False) or v
        elif isinstance(v, (int, float)):
            total[k] = total.get(k, 0) + v
        elif isinstance(v, list):
            total.setdefault(k, []).extend(v)
        elif isinstance(v, dict):
            sub = total.setdefault(k, {})
            for kk, vv in v.items():
                if isinstance(vv, (int, float)):
                    sub[kk] = sub.get(kk, 0) + vv
                else:
                    sub.setdefault(kk, vv)
        elif v is not None:
            total.setdefault(k, v)
    return total


def library_crash(mod, unit, exc):
    """An ordinary exception whose innermost frame lies inside the parglare
    package and that the check did not expect (it escaped from run_unit) is
    a deviation of that unit: the library failed with an internal error on an
    input of the property's domain.  Returns a unit result carrying one
    violation, or None when the exception was raised by harness code."""
    from pgmc.findings import digest
    tb = traceback.extract_tb(exc.__traceback__)
    if not tb or "/parglare/" not in tb[-1].filename.replace("\\", "/"):
        return None
    detail = {"type": type(exc).__name__,
              "where": f"{tb[-1].filename.rsplit('/', 1)[-1]}:{tb[-1].name}"}
    return {"violations": [{
        "property": getattr(mod, "PROP", "?"),
        "what": "the library raised an internal error inside this unit "
                "of the exploration",
        "finding_class": None, "digest": digest(detail),
        "case": {"unit": unit, "exception": f"{type(exc).__name__}: "
                 f"{str(exc)[:200]}", "raised_in": detail["where"]},
        "detail": detail}],
        "violation_count": 1, "known_seen": {}, "library_crash_units": 1}


def _worker(modname, conn, mem_gb):
    signal.signal(signal.SIGINT, signal.SIG_IGN)
    if mem_gb:
        lim = int(mem_gb * (1 << 30))
        resource.setrlimit(resource.RLIMIT_AS, (lim, lim))
    try:
        mod = importlib.import_module(modname)
        if hasattr(mod, "worker_init"):
            mod.worker_init()
    except BaseException:
        conn.send(("fatal", -1, traceback.format_exc()))
        return
    while True:
        try:
            msg = conn.recv()
        except EOFError:
            return
        if msg is None:
            return
        idx, unit = msg
        try:
            t0 = time.time()
            res = mod.run_unit(unit)
            res["unit_wall_max"] = [round(time.time() - t0, 2), idx]
            conn.send(("done", idx, res))
        except Exception as e:      # noqa: BLE001
            res = library_crash(mod, unit, e)
            if res is None:
                conn.send(("error", idx, traceback.format_exc()))
            else:
                conn.send(("done", idx, res))
        except BaseException:
            conn.send(("error", idx, traceback.format_exc()))


class Supervisor:
    def __init__(self, modname, nworkers=None, unit_timeout=300, mem_gb=6):
        self.modname = modname
        self.n = nworkers or min(16, os.cpu_count() or 1)
        self.unit_timeout = unit_timeout
        self.mem_gb = mem_gb
        self.ctx = mp.get_context("fork")

    def _spawn(self):
        a, b = self.ctx.Pipe()
        p = self.ctx.Process(target=_worker, args=(self.modname, b, self.mem_gb),
                             daemon=True)
        p.start()
        b.close()
        return [p, a, None, 0.0]      # process, conn, current idx, started

    def run(self, units, progress=None):
        """returns (results: {idx: dict}, failures: {idx: reason})"""
        n = min(self.n, max(1, len(units)))
        workers = [self._spawn() for _ in range(n)]
        pending = list(range(len(units)))[::-1]
        retry = {}
        results, failures = {}, {}
        done = 0

        def give(w):
            if pending:
                idx = pending.pop()
                w[2], w[3] = idx, time.time()
                w[1].send((idx, units[idx]))
            else:
                w[2] = None

        for w in workers:
            give(w)
        try:
            while any(w[2] is not None for w in workers):
                conns = [w[1] for w in workers if w[2] is not None]
                ready = mpc.wait(conns, timeout=1.0)
                now = time.time()
                for w in workers:
                    if w[2] is None:
                        continue
                    idx = w[2]
                    if w[1] in ready:
                        try:
                            kind, ridx, payload = w[1].recv()
                        except (EOFError, ConnectionResetError):
                            kind, ridx, payload = "died", idx, "worker process died"
                        if kind == "done":
                            results[ridx] = payload
                            done += 1
                            if progress:
                                progress(done, len(units))
                            give(w)
                            continue
                        if kind == "fatal":
                            raise RuntimeError("worker init failed:\n" + payload)
                        self._fail(w, workers, idx, kind, payload, retry,
                                   pending, failures)
                    elif now - w[3] > self.unit_timeout:
                        self._fail(w, workers, idx, "timeout",
                                   f"unit exceeded {self.unit_timeout}s",
                                   retry, pending, failures)
                # hand work to respawned idle workers
                for w in workers:
                    if w[2] is None and pending:
                        give(w)
        finally:
            for w in workers:
                try:
                    if w[0].is_alive():
                        try:
                            w[1].send(None)
                        except Exception:
                            pass
                        w[0].join(0.5)
                        if w[0].is_alive():
                            w[0].kill()
                    w[1].close()
                except Exception:
                    pass
        return results, failures

    def _fail(self, w, workers, idx, kind, payload, retry, pending, failures):
        try:
            w[0].kill()
            w[0].join(1)
            w[1].close()
        except Exception:
            pass
        nw = self._spawn()
        w[0], w[1], w[2], w[3] = nw[0], nw[1], None, 0.0
        if kind == "error":
            # a Python exception escaping run_unit is a harness error
            failures[idx] = ("harness-error", payload)
        elif retry.get(idx, 0) < 1:
            retry[idx] = 1
            pending.append(idx)      # confirm once in a fresh process
        else:
            failures[idx] = ("worker-died", f"{kind}: {payload}")


def run_inline(modname, units):
    mod = importlib.import_module(modname)
    if hasattr(mod, "worker_init"):
        mod.worker_init()
    results = {}
    for i, u in enumerate(units):
        try:
            results[i] = mod.run_unit(u)
        except Exception as e:      # noqa: BLE001
            results[i] = library_crash(mod, u, e)
            if results[i] is None:
                raise
    return results, {}
