"""Long inputs on medium-sized grammars (C01 and C03): the bounded spaces of
the sweeps have tables with fewer than ten states and inputs of at most five
tokens; here frontier numbers and state ids both reach two digits.  A few
fixed grammars x EVERY input of the given lengths over a two-letter alphabet,
against the chart reference (acceptance, number of derivations)."""
import collections

from . import spaces
from .drive import (BudgetExceeded, ForestView, Monitor, build,
                    grammar_from_string, parse)
from .findings import Judge
from .ref.cfg import INF, CharRef

# (name, productions, nonterminals, terminals -> text, alphabet)
GRAMMARS = [
    # juxtaposition + a prefix operator + a left-recursive atom; the eight
    # extra atoms only push the state numbers up
    ("juxta", [("E", ("E", "E")), ("E", ("N",)), ("E", ("b",)), ("E", ("c",)),
               ("E", ("d",)), ("E", ("e",)), ("E", ("f",)), ("E", ("g",)),
               ("E", ("h",)), ("E", ("i",)), ("E", ("m", "E")),
               ("N", ("a",)), ("N", ("N", "a"))], ("E", "N"),
     {"a": "a", "m": "-", "b": "b", "c": "c", "d": "d", "e": "e", "f": "f",
      "g": "g", "h": "h", "i": "i"}, "a-"),
    # two prefix keywords in front of the same nonterminal (two states with
    # a goto on N to the same state), unambiguous apart from N N
    ("prefixes", [("S", ("S", "T")), ("S", ("T",)), ("T", ("k", "N")),
                  ("T", ("j", "N")), ("T", ("b",)), ("T", ("c",)),
                  ("T", ("d",)), ("T", ("e",)), ("T", ("f",)), ("T", ("g",)),
                  ("N", ("a",)), ("N", ("N", "a")), ("N", ("N", "N", "k"))],
     ("S", "T", "N"),
     {"a": "a", "k": "k", "j": "j", "b": "b", "c": "c", "d": "d", "e": "e",
      "f": "f", "g": "g"}, "akj"),
]


def long_inputs(alpha, n):
    """two-letter alphabets: every string of length n; larger alphabets:
    every string with at most three letters other than the first one"""
    import itertools
    if len(alpha) == 2:
        return ["".join(t) for t in itertools.product(alpha, repeat=n)]
    out = []
    for k in range(0, 4):
        for pos in itertools.combinations(range(n), k):
            for letters in itertools.product(alpha[1:], repeat=k):
                w = [alpha[0]] * n
                for p, ch in zip(pos, letters):
                    w[p] = ch
                out.append("".join(w))
    return out


def units(lengths, parts=16):
    out = []
    for gi, g in enumerate(GRAMMARS):
        for n in lengths:
            for p in range(parts):
                out.append({"space": "long", "gram": gi, "len": n, "part": p,
                            "parts": parts})
    return out


def run(u, prop, known, mode):
    """mode 'language' (C01): acceptance and validity of the first tree;
    mode 'count' (C03): number of trees"""
    name, prods, nts, lex, alpha = GRAMMARS[u["gram"]]
    lexmap = {t: ("s", v) for t, v in lex.items()}
    text = spaces.render_grammar(prods, nts, lexmap)
    ordered = spaces.ordered_prods(prods, nts)
    ref = CharRef(ordered, nts[0], lexmap, ws="")
    mon = Monitor()
    judge = Judge(prop, known)
    st = collections.Counter()
    parsers = [(tk, build("glr", grammar_from_string(text), mon,
                          tag=("long", tk), tables=tk, ws=""))
               for tk in ("LALR", "SLR")]
    inputs = long_inputs(alpha, u["len"])[u["part"]::u["parts"]]
    for s in inputs:
        an = ref.analyse(s)
        for tk, p in parsers:
            cfg = f"long/{name}/{tk}"
            case = {"grammar": text, "parser": "glr", "input": s,
                    "options": {"tables": tk, "ws": ""}}
            try:
                o = parse(p, s, mon)
            except BudgetExceeded:
                continue
            st["evaluations"] += 1
            if an.sentence:
                st["nontrivial"] += 1
            if mode == "language":
                if o.kind == "budget":
                    continue
                if an.sentence != (o.kind == "ok"):
                    judge.deviation(None, cfg, name, s,
                                    "GLRParser rejects a sentence / accepts "
                                    "a non-sentence (long input)",
                                    {"sentence": an.sentence, "got": o.brief()},
                                    case)
                elif o.kind == "ok":
                    from .glrcmp import ForestCmp
                    cmp = ForestCmp(an, o.value.result, nts[0], ref.prods)
                    if cmp.cyclic or cmp.local or cmp.surplus:
                        judge.deviation(None, cfg, name, s,
                                        "forest contains a tree that is not a "
                                        "derivation of the input (long input)",
                                        {"cyclic": cmp.cyclic,
                                         "local": cmp.local[:3],
                                         "surplus": cmp.surplus[:3]}, case)
            else:
                if o.kind != "ok" or not an.sentence:
                    continue
                want = an.count
                fv = ForestView(o.value.result)
                probs = []
                if fv.cyclic:
                    probs.append(("cyclic forest",))
                else:
                    try:
                        sol = o.value.solutions
                    except Exception as e:      # noqa: BLE001
                        sol = type(e).__name__
                    if sol != want:
                        probs.append(("solutions", str(sol), str(want)))
                    if fv.count() != want:
                        probs.append(("own count of the forest", str(fv.count()),
                                      str(want)))
                if probs and want != INF:
                    judge.deviation(None, cfg, name, s,
                                    "number of trees differs from the number "
                                    "of derivations (long input)",
                                    {"problems": probs[:3]}, case)
    r = judge.result()
    r.update(st)
    r.update(states=len(mon.states), transitions=mon.transitions,
             traces=mon.traces,
             samples=[{"family": "long inputs", "grammar": text,
                       "length": u["len"], "inputs": len(inputs)}])
    return r
