"""Known-findings matching (DESIGN.md section 7).  Read-only at run time.

known_findings.json        index of findings and of `fixed:` lines
known/<finding id>.json    witness map  {cfg: {grammar: {input: digest}}}
"""
import hashlib
import json
import os

ROOT = os.path.dirname(os.path.dirname(os.path.abspath(__file__)))
INDEX = os.path.join(ROOT, "known_findings.json")


def digest(obj):
    return hashlib.sha256(
        json.dumps(obj, sort_keys=True, default=str).encode()).hexdigest()[:10]


class Known:
    def __init__(self, prop):
        self.prop = prop
        self.findings = {}
        self.maps = {}
        if os.path.exists(INDEX):
            idx = json.load(open(INDEX))
            for f in idx.get("findings", []):
                if prop in f.get("properties", []):
                    self.findings[f["id"]] = f
                    if f.get("kind") == "witness_map":
                        path = os.path.join(ROOT, f["file"])
                        if os.path.exists(path):
                            self.maps[f["id"]] = json.load(open(path))["witnesses"]

    def match(self, fid, cfg, gkey, inp, dg):
        m = self.maps.get(fid)
        if m is None:
            return False
        return m.get(cfg, {}).get(gkey, {}).get(inp) == dg

    def title(self, fid):
        return self.findings[fid]["title"]


RECORD = bool(os.environ.get("PGMC_RECORD"))


class Judge:
    """Collects deviations of one unit and sorts them into known findings
    and violations.  In record mode (tools/mkwitness) everything is kept."""

    def __init__(self, prop, known):
        self.prop = prop
        self.known = known
        self.violations = []
        self.known_seen = {}
        self.recorded = []

    def deviation(self, fid, cfg, gkey, inp, what, detail, case):
        """fid: id of the finding this kind of deviation could belong to (or
        None); detail: JSON-able exact deviation, digested for matching"""
        dg = digest(detail)
        if RECORD:
            self.recorded.append([fid, cfg, gkey, inp, dg])
            return
        if fid is not None and self.known.match(fid, cfg, gkey, inp, dg):
            self.known_seen[fid] = self.known_seen.get(fid, 0) + 1
            return
        if len(self.violations) < 50:
            self.violations.append({"property": self.prop, "what": what,
                                    "finding_class": fid, "digest": dg,
                                    "case": case, "detail": detail})
        else:
            self.violations.append(None)

    def result(self):
        r = {"violations": [v for v in self.violations if v is not None],
             "violation_count": len(self.violations),
             "known_seen": dict(self.known_seen)}
        if RECORD:
            r["recorded"] = self.recorded
        return r
