"""Comparison of a GLR forest with the reference SPPF, shared by C01, C02,
C03 and C17.  One observation, each property reads its own part."""
from .drive import INF, ForestView
from .ref.cfg import TooMany

K = 1000


class ForestCmp:
    """
    valid_local   list of local defects (wrong root, rhs mismatch, bad leaf)
    surplus       trees in the forest that are not derivations (C01)
    missing       derivations absent from the forest (C02)
    dups          number of trees enumerated more than once (C03)
    """

    def __init__(self, an, forest_root, start, prods, cap=K):
        self.an = an
        self.fv = fv = ForestView(forest_root)
        self.ref_count = an.count
        self.cyclic = fv.cyclic
        self.own_count = fv.count()
        self.local = []
        self.surplus = []
        self.missing = []
        self.dups = 0
        self.mode = None
        self.distinct = None
        sk = an.sk
        s = an.s
        n = len(s)

        # root symbol
        for a in (forest_root.possibilities
                  if hasattr(forest_root, "possibilities") else [forest_root]):
            sym = a.production.symbol.name if a.is_nonterm() else a.symbol.name
            if sym != start:
                self.local.append(("root-symbol", sym))

        trees = None if fv.cyclic else fv.trees(cap)
        ref_trees = None
        if an.count != INF and an.count <= cap:
            ref_trees = an.trees(cap)
        if trees is not None and ref_trees is not None:
            self.mode = "trees"
            ts = set(trees)
            rs = set(ref_trees)
            self.distinct = len(ts)
            self.dups = len(trees) - len(ts)
            self.surplus = sorted(ts - rs, key=repr)
            self.missing = sorted(rs - ts, key=repr)
        else:
            # SPPF-local comparison on packed alternatives
            self.mode = "alts"
            norm = lambda p: sk[p] if 0 <= p <= n else p   # noqa: E731
            keys, leaves = fv.raw_alt_keys(norm)
            rkeys = an.raw_alt_keys()
            self.surplus = sorted(keys - rkeys, key=repr)
            self.missing = sorted(rkeys - keys, key=repr)
            for (t, st, en, val) in leaves:
                if not (isinstance(st, int) and isinstance(en, int)
                        and s[st:en] == val and (t, st, en) in self._edges()):
                    self.local.append(("bad-leaf", (t, st, en, val)))

    def _edges(self):
        e = getattr(self, "_e", None)
        if e is None:
            an = self.an
            e = self._e = set()
            for (X, p), qs in an.E.items():
                if X not in an.ref.nts:
                    for q in qs:
                        e.add((X, an.sk[p], q))
        return e
