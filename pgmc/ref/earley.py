"""Reference model 6.2: Earley recogniser over token strings: longest viable
prefix, the terminals that can follow it, and whether a prefix is a
sentence."""


class Earley:
    def __init__(self, prods, start):
        self.prods = list(prods)
        self.start = start
        self.nts = {l for l, _ in prods}
        self.nullable = set()
        ch = True
        while ch:
            ch = False
            for l, r in self.prods:
                if l not in self.nullable and all(x in self.nullable for x in r):
                    self.nullable.add(l)
                    ch = True
        self.by = {}
        for i, (l, _) in enumerate(self.prods):
            self.by.setdefault(l, []).append(i)

    def sets(self, w):
        S = [set()]
        for i in self.by.get(self.start, ()):
            S[0].add((i, 0, 0))
        prods = self.prods

        def close(k):
            work = list(S[k])
            while work:
                p, d, o = work.pop()
                l, r = prods[p]
                if d < len(r):
                    X = r[d]
                    if X in self.nts:
                        for q in self.by.get(X, ()):
                            it = (q, 0, k)
                            if it not in S[k]:
                                S[k].add(it)
                                work.append(it)
                        if X in self.nullable:
                            it = (p, d + 1, o)
                            if it not in S[k]:
                                S[k].add(it)
                                work.append(it)
                else:
                    for (p2, d2, o2) in list(S[o]):
                        r2 = prods[p2][1]
                        if d2 < len(r2) and r2[d2] == l:
                            it = (p2, d2 + 1, o2)
                            if it not in S[k]:
                                S[k].add(it)
                                work.append(it)
        close(0)
        for k, t in enumerate(w):
            nxt = {(p, d + 1, o) for (p, d, o) in S[k]
                   if d < len(prods[p][1]) and prods[p][1][d] == t}
            S.append(nxt)
            if not nxt:
                break
            close(k + 1)
        return S

    def analyse(self, w):
        """(sentence, viable, expected, accepts_at_viable)
        viable   = length of the longest prefix of w that is a prefix of a
                   sentence
        expected = terminals t such that w[:viable] + t is again viable
        """
        S = self.sets(w)
        viable = len(S) - 2 if not S[-1] else len(S) - 1
        if viable < 0:
            return False, -1, set(), False     # empty language never happens
        last = S[viable]
        prods = self.prods
        expected = {prods[p][1][d] for (p, d, o) in last
                    if d < len(prods[p][1]) and prods[p][1][d] not in self.nts}
        acc = any(prods[p][0] == self.start and d == len(prods[p][1]) and o == 0
                  for (p, d, o) in last)
        return (viable == len(w) and acc), viable, expected, acc
