"""Reference model 6.2: Earley recogniser over token strings: longest viable
prefix, the terminals that can follow it, and whether a prefix is a
sentence."""


class Earley:
    def __init__(self, prods, start):
        self.prods = list(prods)
        self.start = start
        self.nts = {l for l, _ in prods}
        self.nullable = set()
        ch = True
        while ch:
            ch = False
            for l, r in self.prods:
                if l not in self.nullable and all(x in self.nullable for x in r):
                    self.nullable.add(l)
                    ch = True
        self.by = {}
        for i, (l, _) in enumerate(self.prods):
            self.by.setdefault(l, []).append(i)

    def sets(self, w):
        S = [set()]
        for i in self.by.get(self.start, ()):
            S[0].add((i, 0, 0))
        prods = self.prods

        def close(k):
            work = list(S[k])
            while work:
                p, d, o = work.pop()
                l, r = prods[p]
                if d < len(r):
                    X = r[d]
                    if X in self.nts:
                        for q in self.by.get(X, ()):
                            it = (q, 0, k)
                            if it not in S[k]:
                                S[k].add(it)
                                work.append(it)
                        if X in self.nullable:
                            it = (p, d + 1, o)
                            if it not in S[k]:
                                S[k].add(it)
                                work.append(it)
                else:
                    for (p2, d2, o2) in list(S[o]):
                        r2 = prods[p2][1]
                        if d2 < len(r2) and r2[d2] == l:
                            it = (p2, d2 + 1, o2)
                            if it not in S[k]:
                                S[k].add(it)
                                work.append(it)
        close(0)
        for k, t in enumerate(w):
            nxt = {(p, d + 1, o) for (p, d, o) in S[k]
                   if d < len(prods[p][1]) and prods[p][1][d] == t}
            S.append(nxt)
            if not nxt:
                break
            close(k + 1)
        return S

    def analyse(self, w):
        """(sentence, viable, expected, accepts_at_viable)
        viable   = length of the longest prefix of w that is a prefix of a
                   sentence
        expected = terminals t such that w[:viable] + t is again viable
        """
        S = self.sets(w)
        viable = len(S) - 2 if not S[-1] else len(S) - 1
        if viable < 0:
            return False, -1, set(), False     # empty language never happens
        last = S[viable]
        prods = self.prods
        expected = {prods[p][1][d] for (p, d, o) in last
                    if d < len(prods[p][1]) and prods[p][1][d] not in self.nts}
        acc = any(prods[p][0] == self.start and d == len(prods[p][1]) and o == 0
                  for (p, d, o) in last)
        return (viable == len(w) and acc), viable, expected, acc


class CharEarley:
    """Viable-prefix analysis at character level for scannerless parsing with
    lexical overlap: breadth-first search over (Earley item set, raw position)
    where each step scans one terminal that is expected by the item set and
    matches the text after layout.  Terminals, layout and matching as in
    ref/cfg.py."""

    def __init__(self, prods, start, matchers, skip):
        self.e = Earley(prods, start)
        self.m = matchers
        self.skip = skip
        self.prods = self.e.prods

    def _close(self, items):
        """closure of an item set that is independent of origins: we only need
        expected terminals / acceptance, so run Earley incrementally"""
        raise NotImplementedError

    def analyse(self, s):
        """returns dict(sentence, pos, expected, farthest_q)
        pos      = character offset where the error is reported when s is not
                   a sentence: layout-skipped farthest end of a viable token
                   prefix
        expected = terminals that can follow a viable token prefix ending at
                   that farthest position
        """
        e = self.e
        n = len(s)
        # configurations: (tuple of tokens) would explode; Earley sets depend
        # on the whole token history, so key the search by (token tuple) but
        # merge configurations with equal (frozenset(last set), q) - the last
        # set alone does not determine the future (origins point into earlier
        # sets), hence keep the full list of sets with the representative.
        start_sets = e.sets([])
        seen = {}
        work = [((), 0, start_sets)]
        far_q = 0
        best = []
        sentence = False
        while work:
            toks, q, S = work.pop()
            last = S[-1]
            i = self.skip(s, q)
            acc = any(e.prods[p][0] == e.start and d == len(e.prods[p][1])
                      and o == 0 for (p, d, o) in last)
            if acc and i == n:
                sentence = True
            exp = {e.prods[p][1][d] for (p, d, o) in last
                   if d < len(e.prods[p][1]) and e.prods[p][1][d] not in e.nts}
            if q > far_q:
                far_q = q
                best = []
            if q == far_q:
                best.append(exp)
            if i >= n:
                continue
            for t in sorted(exp):
                q2 = self.m.match(t, s, i)
                if q2 is None:
                    continue
                toks2 = toks + (t,)
                S2 = e.sets(list(toks2))
                if not S2[-1] or len(S2) != len(toks2) + 1:
                    continue
                key = (toks2, q2)
                if key in seen:
                    continue
                seen[key] = True
                work.append((toks2, q2, S2))
        expected = set()
        for x in best:
            expected |= x
        return {"sentence": sentence, "pos": self.skip(s, far_q),
                "expected": expected, "farthest_q": far_q}
