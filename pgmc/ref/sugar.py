"""Reference model 6.5: expansion of the repetition / optional / separator /
group syntax to plain BNF exactly as the "Syntax equivalence" notes of
docs/grammar_language.md do, with the documented sharing: one helper per
(base, operator kind, separator).  Greedy flags follow the implementation's
documented-by-example rule: the first use of a helper decides its flag.

An item is (base, op, sep):  base in a | b | A | (a b) | (a | b) | (a b?);
op in '' ? * + ?! *! +!;  sep in '' [c] [C].
"""
import collections


class Exp:
    def __init__(self):
        self.rules = collections.OrderedDict()   # name -> (action, rhs text)
        self.gcount = 0

    def base_sym(self, base, owner):
        if base.startswith("("):
            self.gcount += 1
            name = f"{owner}_G{self.gcount}"
            rhs = []
            for alt in base[1:-1].split("|"):
                syms = []
                for tok in alt.split():
                    if tok.endswith("?"):
                        syms.append(self.item(tok[:-1], "?", "", owner))
                    else:
                        syms.append(tok)
                rhs.append(" ".join(syms))
            self.rules[name] = (None, " | ".join(rhs))
            return name
        return base

    def item(self, base, op, sep, owner):
        x = self.base_sym(base, owner)
        s = sep[1:-1] if sep else ""
        greedy = op.endswith("!")
        op = op.rstrip("!")
        right = " {right}" if greedy else ""
        if op == "":
            return x
        if op == "?":
            n = f"{x}_OPT"
            if n not in self.rules:
                self.rules[n] = ("optional", f"{x} | EMPTY{right}")
            return n
        n1 = f"{x}_ONE" + (f"_{s}" if s else "")
        if n1 not in self.rules:
            self.rules[n1] = ("collect_sep" if s else "collect",
                              f"{n1} {s} {x} | {x}" if s else f"{n1} {x} | {x}")
        if op == "+":
            if not greedy:
                return n1
            ng = n1 + "_GR"
            if ng not in self.rules:
                self.rules[ng] = ("pass_single", f"{n1} {{right}}")
            return ng
        n0 = f"{x}_ZERO" + (f"_{s}" if s else "")
        if n0 not in self.rules:
            meta = "{nops, right}" if greedy else "{nops}"
            self.rules[n0] = (None, f"{n1} {meta} | EMPTY{right}")
        return n0

    def text(self):
        out = []
        for n, (act, rhs) in self.rules.items():
            if act:
                out.append(f"@{act}")
            out.append(f"{n}: {rhs};")
        return "\n".join(out)

    def prods(self):
        """abstract productions of the helper rules (for the chart)"""
        out = []
        for n, (_, rhs) in self.rules.items():
            for alt in rhs.split("|"):
                syms = [t for t in alt.split()
                        if not t.startswith("{") and not t.endswith("}")
                        and t != "EMPTY"]
                out.append((n, tuple(syms)))
        return out
