"""Reference model 6.5: precedence climbing over a token list.
table: op -> (priority, 'left'|'right'); higher priority binds tighter.
Result mirrors parglare's default nested lists: 'n', [l, op, r],
['(', e, ')']."""


def parse_expr(toks, table):
    pos = [0]

    def atom():
        t = toks[pos[0]]
        if t == "(":
            pos[0] += 1
            e = expr(0)
            assert toks[pos[0]] == ")"
            pos[0] += 1
            return ["(", e, ")"]
        assert t == "n", t
        pos[0] += 1
        return "n"

    def expr(minp):
        left = atom()
        while pos[0] < len(toks) and toks[pos[0]] in table:
            op = toks[pos[0]]
            p, assoc = table[op]
            if p < minp:
                break
            pos[0] += 1
            right = expr(p + 1 if assoc == "left" else p)
            left = [left, op, right]
        return left
    r = expr(0)
    assert pos[0] == len(toks)
    return r


def expressions(ops, maxops, depth=1):
    """all well-formed token strings with at most maxops operators,
    parentheses nested at most `depth` deep, as tuples of tokens"""
    memo = {}

    def E(m, d):
        key = (m, d)
        if key in memo:
            return memo[key]
        out = []
        # number of top-level operators j, m-j go inside parenthesised atoms
        for j in range(0, m + 1):
            rest = m - j
            for dist in _dist(rest, j + 1):
                atom_sets = []
                ok = True
                for x in dist:
                    if x == 0:
                        a = [("n",)]
                        if d > 0 and j > 0 and m <= 2:
                            a = a + [("(", "n", ")")]
                    elif d > 0:
                        a = [("(",) + e + (")",) for e in E(x, d - 1)]
                    else:
                        ok = False
                        break
                    atom_sets.append(a)
                if not ok:
                    continue
                for opsel in _product(ops, j):
                    seqs = [()]
                    for i, aset in enumerate(atom_sets):
                        seqs = [s + a + ((opsel[i],) if i < j else ())
                                for s in seqs for a in aset]
                    out.extend(seqs)
        out = sorted(set(out))
        memo[key] = out
        return out

    res = []
    for m in range(0, maxops + 1):
        res.extend(E(m, depth))
    return sorted(set(res), key=lambda t: (len(t), t))


def _dist(total, parts):
    if parts == 1:
        yield (total,)
        return
    for i in range(total + 1):
        for rest in _dist(total - i, parts - 1):
            yield (i,) + rest


def _product(ops, n):
    if n == 0:
        yield ()
        return
    for r in _product(ops, n - 1):
        for o in ops:
            yield r + (o,)
