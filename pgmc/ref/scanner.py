"""Reference model 6.4: the documented lexical disambiguation rules
(docs/disambiguation.md) applied to the *full* candidate set - no ordering,
no flags, no early exit.

candidate = (name, kind, priority, prefer, value)   kind: 's' string (or
keyword), 'r' regex, 'c' custom Python recogniser
"""


def choose(cands):
    """('none',) | ('token', cand) | ('ambiguous', frozenset(cands))"""
    if not cands:
        return ("none",)
    top = max(c[2] for c in cands)
    c = [x for x in cands if x[2] == top]          # priorities first
    strs = [x for x in c if x[1] == "s"]
    if strs:                                         # 1. most specific
        c = strs
    m = max(len(x[4]) for x in c)                    # 2. longest match
    c = [x for x in c if len(x[4]) == m]
    if len(c) > 1:                                   # 3. prefer
        pref = [x for x in c if x[3]]
        if pref:
            c = pref
    if len(c) == 1:
        return ("token", c[0])
    return ("ambiguous", frozenset(c))               # 4. exception / GLR fork


def pursued_without_disambiguation(cands):
    """lexical_disambiguation=False: every matching expected terminal of the
    highest matching priority"""
    if not cands:
        return frozenset()
    top = max(c[2] for c in cands)
    return frozenset(x for x in cands if x[2] == top)
