"""Reference model 6.3: canonical LR(1) automaton from the textbook
definitions (no merging, no propagation loops), LALR(1) lookaheads by core
union, FOLLOW sets.  Production 0 is S' -> start; end of input is '$'."""
import collections

EOF_ = "$"


class LR1:
    def __init__(self, prods, start, terms):
        self.prods = [("S'", (start,))] + list(prods)
        self.terms = list(terms)
        self.nts = {l for l, _ in self.prods}
        self.by = {}
        for i, (l, _) in enumerate(self.prods):
            self.by.setdefault(l, []).append(i)
        self.nullable = set()
        ch = True
        while ch:
            ch = False
            for l, r in self.prods:
                if l not in self.nullable and all(x in self.nullable for x in r):
                    self.nullable.add(l)
                    ch = True
        self.first = {t: {t} for t in self.terms}
        for n in self.nts:
            self.first[n] = set()
        ch = True
        while ch:
            ch = False
            for l, r in self.prods:
                for x in r:
                    add = self.first[x] - self.first[l]
                    if add:
                        self.first[l] |= add
                        ch = True
                    if x not in self.nullable:
                        break
        self.follow = {n: set() for n in self.nts}
        self.follow["S'"].add(EOF_)
        ch = True
        while ch:
            ch = False
            for l, r in self.prods:
                for i, x in enumerate(r):
                    if x in self.nts:
                        f = set()
                        allnull = True
                        for y in r[i + 1:]:
                            f |= self.first[y]
                            if y not in self.nullable:
                                allnull = False
                                break
                        if allnull:
                            f |= self.follow[l]
                        if f - self.follow[x]:
                            self.follow[x] |= f
                            ch = True
        self._build()

    def first_seq(self, seq, la):
        out = set()
        for y in seq:
            out |= self.first[y]
            if y not in self.nullable:
                return out
        out.add(la)
        return out

    def closure(self, items):
        items = set(items)
        work = list(items)
        while work:
            p, d, la = work.pop()
            r = self.prods[p][1]
            if d < len(r) and r[d] in self.nts:
                for la2 in self.first_seq(r[d + 1:], la):
                    for q in self.by.get(r[d], ()):
                        it = (q, 0, la2)
                        if it not in items:
                            items.add(it)
                            work.append(it)
        return frozenset(items)

    def goto(self, I, X):
        return self.closure({(p, d + 1, la) for (p, d, la) in I
                             if d < len(self.prods[p][1])
                             and self.prods[p][1][d] == X})

    def _build(self):
        I0 = self.closure({(0, 0, EOF_)})
        self.states = [I0]
        self.idx = {I0: 0}
        self.trans = {}
        work = [0]
        while work:
            i = work.pop()
            I = self.states[i]
            syms = sorted({self.prods[p][1][d] for (p, d, la) in I
                           if d < len(self.prods[p][1])})
            for X in syms:
                J = self.goto(I, X)
                if J not in self.idx:
                    self.idx[J] = len(self.states)
                    self.states.append(J)
                    work.append(self.idx[J])
                self.trans[(i, X)] = self.idx[J]
        # actions: state -> terminal -> set of ('s',) / ('r', p) / ('acc',)
        self.actions = []
        for I in self.states:
            a = collections.defaultdict(set)
            for (p, d, la) in I:
                r = self.prods[p][1]
                if d == len(r):
                    if p == 0:
                        a[EOF_].add(("acc",))
                    else:
                        a[la].add(("r", p))
                elif r[d] in self.terms:
                    a[r[d]].add(("s",))
            self.actions.append(a)
        self.core = [frozenset((p, d) for (p, d, la) in I) for I in self.states]
        # LALR(1) lookahead of a completed item = union over the core class
        self.lalr = collections.defaultdict(set)
        for i, I in enumerate(self.states):
            for (p, d, la) in I:
                if d == len(self.prods[p][1]):
                    self.lalr[(self.core[i], p)].add(la)
        # LALR(1) action sets per core
        self.lalr_act = collections.defaultdict(lambda: collections.defaultdict(set))
        for i in range(len(self.states)):
            for t, acts in self.actions[i].items():
                self.lalr_act[self.core[i]][t] |= acts

    def lalr_conflicts(self):
        """{(core, terminal)} where the LALR(1) table has > 1 action"""
        return {(c, t) for c, cells in self.lalr_act.items()
                for t, a in cells.items() if len(a) > 1}

    def slr_act(self, i):
        """SLR(1) action sets of canonical state i (by its core)"""
        a = collections.defaultdict(set)
        for (p, d) in self.core[i]:
            r = self.prods[p][1]
            if d == len(r):
                if p == 0:
                    a[EOF_].add(("acc",))
                else:
                    for t in self.follow[self.prods[p][0]]:
                        a[t].add(("r", p))
            elif r[d] in self.terms:
                a[r[d]].add(("s",))
        return a

    def shortest_yields(self):
        """shortest terminal string derivable from every symbol"""
        y = {t: (t,) for t in self.terms}
        ch = True
        while ch:
            ch = False
            for l, r in self.prods:
                if all(x in y for x in r):
                    cand = tuple(t for x in r for t in y[x])
                    if l not in y or len(cand) < len(y[l]):
                        y[l] = cand
                        ch = True
        return y
