"""Reference model 6.1: character-level chart + shared packed parse forest.

Independent of LR theory.  A grammar is a list of productions
(lhs, rhs-tuple) in parglare's production order, a start symbol, and a lexeme
map  terminal -> ('s', text) | ('r', regex).  Positions are *raw* character
offsets (before layout is skipped); a terminal edge (t, p, q) means: after
skipping layout from p the recogniser of t matches input[skip(p):q].

The two recogniser semantics are those of parglare/grammar.py:231-293:
literal `startswith` and `re.match(...).group()` if non-empty (flags
MULTILINE|VERBOSE, IGNORECASE when asked).
"""
import re

INF = float("inf")


class TooMany(Exception):
    pass


class Matchers:
    def __init__(self, lexmap, ignore_case=False):
        self.m = {}
        for t, lm in lexmap.items():
            kind, text = lm[0], lm[1]     # lm[2:] = meta-data (priority ...)
            if kind == "s":
                self.m[t] = ("s", text.lower() if ignore_case else text, len(text))
            else:
                flags = re.MULTILINE | re.VERBOSE
                if ignore_case:
                    flags |= re.IGNORECASE
                self.m[t] = ("r", re.compile(text, flags), None)
        self.ignore_case = ignore_case

    def match(self, t, s, i):
        """end position of t's match at i, or None"""
        kind, x, n = self.m[t]
        if kind == "s":
            seg = s[i:i + n]
            if self.ignore_case:
                seg = seg.lower()
            return i + n if seg == x and n > 0 else None
        mm = x.match(s, i)
        if mm and mm.group():
            return mm.end()
        return None


def ws_skipper(ws):
    def skip(s, p):
        n = len(s)
        while p < n and s[p] in ws:
            p += 1
        return p
    if not ws:
        return lambda s, p: p
    return skip


class CharRef:
    def __init__(self, prods, start, lexmap, ws=" ", skipper=None,
                 ignore_case=False):
        self.prods = list(prods)
        self.start = start
        self.nts = {l for l, _ in self.prods}
        self.terms = sorted({x for _, r in self.prods for x in r
                             if x not in self.nts})
        self.by_lhs = {}
        for pi, (l, r) in enumerate(self.prods):
            self.by_lhs.setdefault(l, []).append((pi, r))
        self.matchers = Matchers({t: lexmap[t] for t in self.terms},
                                 ignore_case)
        self.skip = skipper if skipper is not None else ws_skipper(ws)

    # -- chart ---------------------------------------------------------
    def chart(self, s):
        """returns (E, tokstart) with E[(X, p)] = set of q such that X derives
        s[p:q] (raw positions)."""
        n = len(s)
        E = {}
        skip = self.skip
        sk = [skip(s, p) for p in range(n + 1)]
        for p in range(n + 1):
            i = sk[p]
            if i >= n:
                continue
            for t in self.terms:
                q = self.matchers.match(t, s, i)
                if q is not None:
                    E.setdefault((t, p), set()).add(q)
        prods = self.prods
        changed = True
        while changed:
            changed = False
            for l, r in prods:
                for p in range(n + 1):
                    cur = {p}
                    for X in r:
                        nxt = set()
                        for k in cur:
                            e = E.get((X, k))
                            if e:
                                nxt |= e
                        cur = nxt
                        if not cur:
                            break
                    if cur:
                        e = E.get((l, p))
                        if e is None:
                            E[(l, p)] = set(cur)
                            changed = True
                        elif not cur <= e:
                            e |= cur
                            changed = True
        return E, sk

    def _splits(self, r, p, q, E):
        if not r:
            if p == q:
                yield ()
            return

        def rec(idx, k):
            X = r[idx]
            e = E.get((X, k))
            if not e:
                return
            if idx == len(r) - 1:
                if q in e:
                    yield ((X, k, q),)
                return
            for l in sorted(e):
                if l <= q:
                    for rest in rec(idx + 1, l):
                        yield ((X, k, l),) + rest
        yield from rec(0, p)

    def sppf(self, s, E=None, sk=None, roots=None):
        """SPPF below the given root nodes (default: the start symbol over
        the whole input).  nodes[(X,p,q)] = list of (prod index, kids) for a
        nonterminal, None for a terminal."""
        if E is None:
            E, sk = self.chart(s)
        n = len(s)
        if roots is None:
            roots = [(self.start, 0, q) for q in sorted(E.get((self.start, 0), ()))
                     if sk[q] == n]
        nodes = {}
        stack = list(roots)
        while stack:
            nd = stack.pop()
            if nd in nodes:
                continue
            X, p, q = nd
            if X not in self.nts:
                nodes[nd] = None
                continue
            alts = []
            for pi, r in self.by_lhs[X]:
                for kids in self._splits(r, p, q, E):
                    alts.append((pi, kids))
                    stack.extend(kids)
            nodes[nd] = alts
        return roots, nodes

    # -- analysis --------------------------------------------------------
    def analyse(self, s, prefixes=False):
        return Analysis(self, s, prefixes)


class Analysis:
    """Everything the checks ask about one input."""

    def __init__(self, ref, s, prefixes=False):
        self.ref = ref
        self.s = s
        self.E, self.sk = ref.chart(s)
        n = len(s)
        ends = sorted(self.E.get((ref.start, 0), ()))
        if prefixes:
            # every prefix ending at a token boundary that is a sentence
            self.roots = [(ref.start, 0, q) for q in ends]
        else:
            self.roots = [(ref.start, 0, q) for q in ends if self.sk[q] == n]
        self.sentence = bool(self.roots)
        self._nodes = None
        self._count = None

    @property
    def nodes(self):
        if self._nodes is None:
            _, self._nodes = self.ref.sppf(self.s, self.E, self.sk, self.roots)
        return self._nodes

    def cyclic(self):
        """is a cycle reachable from the roots (=> infinitely many trees)"""
        nodes = self.nodes
        color = {}
        for root in self.roots:
            if root in color:
                continue
            stack = [(root, iter(self._kids(root)))]
            color[root] = 1
            while stack:
                nd, it = stack[-1]
                for c in it:
                    cc = color.get(c)
                    if cc == 1:
                        return True
                    if cc is None:
                        color[c] = 1
                        stack.append((c, iter(self._kids(c))))
                        break
                else:
                    color[nd] = 2
                    stack.pop()
        return False

    def _kids(self, nd):
        alts = self.nodes[nd]
        if alts is None:
            return ()
        return [c for _, kids in alts for c in kids]

    def node_counts(self):
        """memoised derivation count per node (acyclic SPPF only)"""
        nodes = self.nodes
        memo = {}

        def cnt(nd):
            v = memo.get(nd)
            if v is not None:
                return v
            alts = nodes[nd]
            if alts is None:
                v = 1
            else:
                v = 0
                for _, kids in alts:
                    pr = 1
                    for c in kids:
                        pr *= cnt(c)
                    v += pr
            memo[nd] = v
            return v
        for r in self.roots:
            cnt(r)
        return memo

    @property
    def count(self):
        """number of derivation trees (sum over roots); INF if infinite"""
        if self._count is None:
            if not self.roots:
                self._count = 0
            elif self.cyclic():
                self._count = INF
            else:
                memo = self.node_counts()
                self._count = sum(memo[r] for r in self.roots)
        return self._count

    def trees(self, cap=1000):
        """all derivation trees as nested tuples, canonical form:
        interior (prod index, (children...)), leaf (terminal, tokstart, end).
        Raises TooMany if the count exceeds cap (or is infinite)."""
        if self.count == INF or self.count > cap:
            raise TooMany()
        nodes = self.nodes
        sk = self.sk
        memo = {}

        def tr(nd):
            if nd in memo:
                return memo[nd]
            alts = nodes[nd]
            if alts is None:
                out = [(nd[0], sk[nd[1]], nd[2])]
            else:
                out = []
                for pi, kids in alts:
                    parts = [tr(c) for c in kids]
                    combos = [()]
                    for part in parts:
                        combos = [c + (x,) for c in combos for x in part]
                    out.extend((pi, c) for c in combos)
            memo[nd] = out
            return out
        res = []
        for r in self.roots:
            res.extend(tr(r))
        return res

    def alt_keys(self):
        """set of packed alternatives in layout-normalised, leaf-derived
        coordinates: (X, prod, ((sym, tokstart, end) | (sym, None), ...))"""
        out = set()
        sk = self.sk
        for nd, alts in self.nodes.items():
            if alts is None:
                continue
            for pi, kids in alts:
                out.add((nd[0], pi, tuple(
                    (c[0], sk[c[1]], c[2]) if c[2] > c[1] else (c[0], None)
                    for c in kids)))
        return out

    def raw_alt_keys(self):
        """packed alternatives with normalised positions of every node,
        empty ones included: (X, n(p), n(q), prod, ((sym, n(p), n(q)),...))"""
        out = set()
        sk = self.sk
        for nd, alts in self.nodes.items():
            if alts is None:
                continue
            for pi, kids in alts:
                out.add((nd[0], sk[nd[1]], sk[nd[2]], pi,
                         tuple((c[0], sk[c[1]], sk[c[2]]) for c in kids)))
        return out

    def token_strings(self, cap=64):
        """distinct token sequences (as tuples of (t, start, end)) over all
        derivations; only used for diagnostics"""
        seqs = set()
        for t in self.trees(cap):
            seqs.add(tuple(leaves(t)))
        return seqs


def leaves(tree):
    out = []
    st = [tree]
    while st:
        t = st.pop()
        if len(t) == 3 and isinstance(t[0], str):
            out.append(t)
        else:
            st.extend(reversed(t[1]))
    return out
