"""Shared sweep for the GLR forest properties (C01, C02, C03, C17): every
grammar of a space x lexeme map x layout x {LALR,SLR} x every input.  The
property module supplies the per-case judgement."""
from . import spaces
from .drive import (BudgetExceeded, Monitor, build, grammar_from_string,
                    install_state_budget, parse)
from .findings import Judge
from .ref.cfg import CharRef

SPACES = {
    "k2": dict(nts=("S", "A"), ts=("a", "b"), r=2, k=2),
    "k3": dict(nts=("S", "A"), ts=("a", "b"), r=2, k=3),
    "k4": dict(nts=("S", "A"), ts=("a", "b"), r=2, k=4),
    "k4only": dict(nts=("S", "A"), ts=("a", "b"), r=2, k=4, kmin=4),
    "r3": dict(nts=("S", "A"), ts=("a", "b"), r=3, k=3),
    "n3": dict(nts=("S", "A", "B"), ts=("a", "b"), r=2, k=4),
    # three nonterminals over one terminal: nullable-heavy, small, complete
    "n3a": dict(nts=("S", "A", "B"), ts=("a",), r=2, k=4),
    # one production with four right-hand-side symbols (reduction paths that
    # fan out and meet again) + up to two short ones, one terminal
    "r4": dict(nts=("S", "A"), ts=("a",), r=2, k=3, rlong=4),
}
CHUNK = 40


def make_units(plan, chunk=CHUNK):
    """plan rows: dict(space, win, lexmaps, wss, alpha, nmax, **extra)"""
    out = []
    for row in plan:
        n = len(spaces.space(SPACES[row["space"]]))
        win = row.get("win")
        idxs = list(range(n)) if win is None else list(
            spaces.window(n, win[0], win[1]))
        for lm in row["lexmaps"]:
            for ws in row["wss"]:
                for i in range(0, len(idxs), chunk):
                    u = {k: v for k, v in row.items()
                         if k not in ("win", "lexmaps", "wss")}
                    u.update(idx=idxs[i:i + chunk], lexmap=lm, ws=ws)
                    out.append(u)
    return out


def worker_init():
    install_state_budget(400)


def sweep(u, prop, known, check_case, acyclic_only=False, parser_opts=None,
          tables=("LALR", "SLR"), prefixes=False):
    """check_case(ctx, an, table_kind, parser, outcome) is called for every
    (grammar, input, table kind)."""
    sp = SPACES[u["space"]]
    nts = sp["nts"]
    gs = spaces.space(sp)
    inputs = spaces.strings(u["alpha"], u["nmax"])
    mon = Monitor()
    judge = Judge(prop, known)
    stats = {"evaluations": 0, "nontrivial": 0, "outcomes": {}, "grammars": 0}
    samples = []
    opts = dict(parser_opts or {})
    for gi in u["idx"]:
        prods = gs[gi]
        if acyclic_only and not spaces.is_acyclic(prods):
            continue
        gk = spaces.gkey(prods, nts)
        text = spaces.render_grammar(prods, nts, u["lexmap"])
        ref = CharRef(spaces.ordered_prods(prods, nts), nts[0],
                      spaces.LEXMAPS[u["lexmap"]], ws=u["ws"])
        try:
            g = grammar_from_string(text)
            parsers = [(t, build("glr", g, mon, tag=(gi, t), tables=t,
                                 ws=u["ws"], **opts)) for t in tables]
        except (Exception, BudgetExceeded) as e:   # noqa: BLE001
            judge.deviation("BUILD-FAILS", f"{u['lexmap']}/build", gk, "",
                            "GLRParser construction failed",
                            {"type": type(e).__name__}, {"grammar": text})
            continue
        stats["grammars"] += 1
        ctx = Ctx(judge, stats, mon, gk, text, u, nts, ref, opts)
        for s in inputs:
            an = ref.analyse(s, prefixes=prefixes)
            for tk, p in parsers:
                ctx.table = tk
                o = parse(p, s, mon)
                stats["evaluations"] += 1
                stats["outcomes"][o.kind] = stats["outcomes"].get(o.kind, 0) + 1
                try:
                    check_case(ctx, an, s, p, o)
                except Exception as e:     # noqa: BLE001
                    # an exception that escapes from the library while the
                    # check reads a result it was handed (forest indexing,
                    # iteration, tree children ...) is a deviation of that
                    # case, not a harness failure; anything raised by the
                    # harness's own code stays a harness error
                    where = impl_frame(e)
                    if where is None and not isinstance(e, RecursionError):
                        raise
                    ctx.deviation(None, s, "the library raised while its "
                                  "result was being read",
                                  {"type": type(e).__name__, "where": where})
        if not samples:
            samples.append({"grammar": gk, "lexmap": u["lexmap"], "ws": u["ws"],
                            "inputs": f"all {len(inputs)} strings over "
                            f"{u['alpha']!r} up to length {u['nmax']}"})
    r = judge.result()
    r.update(stats)
    r.update(states=len(mon.states), transitions=mon.transitions,
             traces=mon.traces, samples=samples)
    return r


def impl_frame(exc):
    """innermost frame of the traceback that lies in the parglare package
    ('file:function'), None if the exception never passed through it"""
    import traceback
    out = None
    for fs in traceback.extract_tb(exc.__traceback__):
        if "/parglare/" in fs.filename.replace("\\", "/"):
            out = f"{fs.filename.rsplit('/', 1)[-1]}:{fs.name}"
    return out


class Ctx:
    def __init__(self, judge, stats, mon, gk, text, u, nts, ref, opts):
        self.judge, self.stats, self.mon = judge, stats, mon
        self.gk, self.text, self.u, self.nts, self.ref = gk, text, u, nts, ref
        self.opts = opts
        self.table = None

    @property
    def cfg(self):
        return f"{self.u['lexmap']}/ws={self.u['ws']!r}/{self.table}"

    def case(self, s):
        o = {"tables": self.table, "ws": self.u["ws"]}
        o.update({k: (getattr(v, "__name__", str(v)) if callable(v) else v)
                  for k, v in self.opts.items()})
        return {"grammar": self.text, "parser": "glr", "options": o, "input": s,
                "lexmap": self.u["lexmap"]}

    def deviation(self, fid, s, what, detail):
        self.judge.deviation(fid, self.cfg, self.gk, s, what, detail,
                             self.case(s))


def base_evidence(total, plan, complete, rule, extra_assumptions=()):
    cov = {
        "states": total.get("states", 0),
        "transitions": total.get("transitions", 0),
        "traces_validated_against_impl": total.get("traces", 0),
        "evaluations": total.get("evaluations", 0),
        "distinct_nontrivial": total.get("nontrivial", 0),
        "rule": rule,
        "samples": total.get("samples", [])[:6],
        "exhaustive": bool(complete),
        "domain": [{k: str(v) for k, v in row.items()} for row in plan],
        "grammars_x_configs": total.get("grammars", 0),
        "outcomes": total.get("outcomes", {}),
        "state_definition": "distinct (grammar, table kind, GSS frontier "
                            "signature at a shift); transitions = executed "
                            "reductions + shifts; traces = parse() runs whose "
                            "outcome was compared with the reference",
    }
    assumptions = [
        "reference: character-level chart/SPPF (pgmc/ref/cfg.py), independent "
        "of LR theory",
        "bounded: grammars <= k productions over 2-3 nonterminals, rhs <= r, "
        "inputs <= n characters over the stated alphabet",
        "PYTHONHASHSEED=0 (set order is the explored dimension of C16)",
    ] + list(extra_assumptions)
    return cov, assumptions
