"""Re-execution of one recorded case without the explorer."""
from . import spaces
from .drive import Monitor, build, grammar_from_string, parse
from .findings import Judge
from .glrsweep import Ctx
from .ref.cfg import CharRef


def parse_gtext(text):
    """abstract productions, nonterminal order, lexeme map from a rendered
    grammar text (inverse of spaces.render_grammar)"""
    body, _, terms = text.partition("terminals")
    prods, nts = [], []
    for line in body.strip().splitlines():
        line = line.strip().rstrip(";")
        if not line:
            continue
        l, _, alts = line.partition(":")
        l = l.strip()
        nts.append(l)
        for alt in alts.split("|"):
            alt = alt.strip()
            prods.append((l, () if alt == "EMPTY" else tuple(alt.split())))
    lm = {}
    for line in terms.strip().splitlines():
        line = line.strip().rstrip(";")
        if not line:
            continue
        t, _, d = line.partition(":")
        d = d.strip()
        lm[t.strip()] = ("s", d[1:-1]) if d[0] == '"' else ("r", d[1:-1])
    return prods, tuple(nts), lm


def replay_glr(rec, prop, known, check_case, prefixes=False):
    case = rec["case"]
    prods, nts, lm = parse_gtext(case["grammar"])
    opts = dict(case.get("options", {}))
    ws = opts.pop("ws", " ")
    tables = opts.pop("tables", "LALR")
    ref = CharRef(prods, nts[0], lm, ws=ws)
    mon = Monitor()
    judge = Judge(prop, known)
    stats = {"evaluations": 0, "nontrivial": 0, "outcomes": {}}
    g = grammar_from_string(case["grammar"])
    p = build("glr", g, mon, tables=tables, ws=ws, **opts)
    s = case["input"]
    u = {"lexmap": case.get("lexmap", "?"), "ws": ws}
    ctx = Ctx(judge, stats, mon, spaces.gkey(prods, nts), case["grammar"], u,
              nts, ref, opts)
    ctx.table = tables
    outs = []
    for _ in range(2):          # replay twice: observations must be identical
        an = ref.analyse(s, prefixes=prefixes)
        o = parse(p, s, mon)
        n0 = len(judge.violations)
        check_case(ctx, an, s, p, o)
        outs.append([(v["what"], v["digest"]) for v in judge.violations[n0:]])
    if outs[0] != outs[1]:
        return False, f"NONDETERMINISTIC replay: {outs}"
    if outs[0]:
        return False, "\n".join(f"{w} [{d}]" for w, d in outs[0])
    return True, "no deviation"
