"""Adapters around the real parglare API: building, parsing under budgets,
canonical observations of trees and forests, step/state monitors.

All wrappers are installed on parser *instances* from the harness and call
straight through to the original bound method; /repo is not touched.
"""
import contextlib
import io
import os
import sys

import parglare
from parglare import GLRParser, Grammar, Parser
from parglare.exceptions import (DisambiguationError, GrammarError, LoopError,
                                 LRConflicts, ParserInitError)
from parglare.glr import Parent
from parglare.tables import LALR, SLR

assert os.path.realpath(parglare.__file__).startswith(
    os.path.realpath(os.environ.get("PGMC_REPO", "/repo")) + "/"), parglare.__file__

TABLES = {"LALR": LALR, "SLR": SLR}
INF = float("inf")


class BudgetExceeded(BaseException):
    """raised by harness wrappers; BaseException so that no `except
    Exception` in the code under test can swallow it"""


class Monitor:
    """Counts what an exploration really executed."""

    def __init__(self):
        self.states = set()
        self.transitions = 0
        self.traces = 0
        self.steps = 0
        self.limit = 10 ** 9
        self.lr_limit = 10 ** 9

    def start(self, limit):
        self.steps = 0
        self.limit = limit
        # an LR parse of a short input needs tens of steps; the stack of a
        # looping one grows with every step, so its budget is tighter
        self.lr_limit = min(limit, 3000)


_devnull = io.StringIO()


@contextlib.contextmanager
def quiet():
    """Parser() prints its whole table when it finds conflicts"""
    old = sys.stdout
    sys.stdout = _devnull
    try:
        yield
    finally:
        sys.stdout = old
        _devnull.seek(0)
        _devnull.truncate()


def grammar_from_string(text, **kw):
    with quiet():
        return Grammar.from_string(text, **kw)


def _wrap(obj, name, before):
    orig = getattr(obj, name)

    def wrapped(*a, **k):
        before()
        return orig(*a, **k)
    wrapped.__wrapped__ = orig
    setattr(obj, name, wrapped)


def instrument_glr(parser, mon, tag=0):
    def on_reduce():
        mon.steps += 1
        mon.transitions += 1
        if mon.steps > mon.limit:
            raise BudgetExceeded("glr reduce steps")

    def on_shift():
        mon.steps += 1
        sig = (tag, tuple(sorted(
            (h.state.state_id, h.token_ahead.symbol.name, st.state_id)
            for h, st in parser._for_shifter)))
        mon.states.add(hash(sig))
        mon.transitions += len(sig[1])
        if mon.steps > mon.limit:
            raise BudgetExceeded("glr shift steps")
    _wrap(parser, "_reduce", on_reduce)
    _wrap(parser, "_do_shifts", on_shift)
    if parser.layout_parser is not None:
        instrument_lr(parser.layout_parser, mon, tag=("L", tag), states=False)
    return parser


def instrument_lr(parser, mon, tag=0, states=True):
    def on_step():
        mon.steps += 1
        mon.transitions += 1
        if mon.steps > mon.lr_limit:
            raise BudgetExceeded("lr steps")
        if states:
            stack = parser.parse_stack
            if len(stack) <= 64:
                mon.states.add(hash((tag, tuple(n.state.state_id
                                                for n in stack))))
    _wrap(parser, "_call_shift_action", on_step)
    _wrap(parser, "_call_reduce_action", on_step)
    if parser.layout_parser is not None:
        instrument_lr(parser.layout_parser, mon, tag=("L", tag), states=False)
    return parser


def build(kind, grammar, mon=None, tag=0, **kw):
    """kind: 'glr' | 'lr'.  Returns the parser or raises."""
    if "tables" in kw and isinstance(kw["tables"], str):
        kw["tables"] = TABLES[kw["tables"]]
    with quiet():
        if kind == "glr":
            p = GLRParser(grammar, **kw)
        else:
            p = Parser(grammar, **kw)
    if mon is not None:
        (instrument_glr if kind == "glr" else instrument_lr)(p, mon, tag)
    return p


class Outcome:
    __slots__ = ("kind", "value", "exc")

    def __init__(self, kind, value=None, exc=None):
        self.kind = kind      # ok | syntax | disamb | budget | exc
        self.value = value
        self.exc = exc

    def brief(self):
        if self.kind == "ok":
            return "ok"
        if self.kind == "syntax":
            return f"SyntaxError@{self.exc.location.start_position}"
        if self.kind == "exc":
            return f"{type(self.exc).__name__}: {str(self.exc)[:80]}"
        return self.kind


def step_limit(s):
    return 10000 * (len(s) + 2)


def parse(parser, s, mon=None, **kw):
    if mon is not None:
        mon.start(step_limit(s))
        mon.traces += 1
    try:
        with quiet():
            r = parser.parse(s, **kw)
        return Outcome("ok", r)
    except parglare.SyntaxError as e:
        return Outcome("syntax", exc=e)
    except DisambiguationError as e:
        return Outcome("disamb", exc=e)
    except BudgetExceeded as e:
        return Outcome("budget", exc=e)
    except (RecursionError, MemoryError) as e:
        return Outcome("exc", exc=e)
    except Exception as e:       # noqa: BLE001 - classified, never swallowed
        return Outcome("exc", exc=e)


# ---------------------------------------------------------------------------
# own walker over forests and trees


def _alts(p):
    """alternatives of a forest node: list of Node objects"""
    if isinstance(p, Parent):
        return p.possibilities
    return [p]


class ForestView:
    """Ground truth about a returned forest object, computed without using
    any of Forest's own counting/indexing code."""

    def __init__(self, root, prod_index=lambda p: p.prod_id - 1):
        self.root = root
        self.pidx = prod_index
        self.order = []          # nodes (Parent or bare Node) in post-order
        self.cyclic = False
        self._walk()

    def _walk(self):
        color = {}
        keep = self.keep = []     # keep references: ids must stay unique
        root = self.root
        stack = [(root, iter(self._kids(root)))]
        color[id(root)] = 1
        keep.append(root)
        while stack:
            nd, it = stack[-1]
            for c in it:
                cc = color.get(id(c))
                if cc == 1:
                    self.cyclic = True
                elif cc is None:
                    color[id(c)] = 1
                    keep.append(c)
                    stack.append((c, iter(self._kids(c))))
                    break
            else:
                color[id(nd)] = 2
                self.order.append(nd)
                stack.pop()

    @staticmethod
    def _kids(p):
        out = []
        for a in _alts(p):
            if a.is_nonterm():
                out.extend(a.children)
        return out

    # number of trees the object graph represents, counted with multiplicity
    def count(self):
        if self.cyclic:
            return INF
        memo = {}
        for nd in self.order:
            tot = 0
            for a in _alts(nd):
                if a.is_nonterm():
                    pr = 1
                    for c in a.children:
                        pr *= memo[id(c)]
                    tot += pr
                else:
                    tot += 1
            memo[id(nd)] = tot
        return memo[id(self.root)]

    def leaf(self, a):
        return (a.symbol.name, a.start_position, a.end_position)

    def trees(self, cap=1000):
        """list (with multiplicity) of canonical trees; None if cyclic or
        more than cap"""
        if self.cyclic:
            return None
        n = self.count()
        if n > cap:
            return None
        memo = {}
        pidx = self.pidx
        for nd in self.order:
            out = []
            for a in _alts(nd):
                if a.is_nonterm():
                    combos = [()]
                    for c in a.children:
                        part = memo[id(c)]
                        combos = [x + (y,) for x in combos for y in part]
                    pi = pidx(a.production)
                    out.extend((pi, c) for c in combos)
                else:
                    out.append(self.leaf(a))
            memo[id(nd)] = out
        return memo[id(self.root)]

    def parents(self):
        return [nd for nd in self.order if isinstance(nd, Parent)]

    def identical_alternatives(self):
        """ambiguity nodes holding two alternatives with the same production
        and pairwise identical child nodes"""
        bad = 0
        for nd in self.order:
            if isinstance(nd, Parent) and len(nd.possibilities) > 1:
                seen = set()
                for a in nd.possibilities:
                    if a.is_nonterm():
                        k = (id(a.production), tuple(id(c) for c in a.children))
                    else:
                        k = ("t", a.symbol.name, a.value)
                    if k in seen:
                        bad += 1
                    seen.add(k)
        return bad

    def raw_alt_keys(self, norm):
        """packed alternatives with the positions parglare reports, layout
        normalised by norm(p): (X, s, e, prod, ((sym, s, e), ...)); plus the
        list of leaves (t, s, e, value)"""
        keys = set()
        leaves = set()
        pidx = self.pidx

        def span(n):
            s, e = n.start_position, n.end_position
            return (norm(s) if isinstance(s, int) else s,
                    norm(e) if isinstance(e, int) else e)
        for nd in self.order:
            for a in _alts(nd):
                if a.is_nonterm():
                    kids = []
                    for c in a.children:
                        cs, ce = span(c)
                        kids.append((_sym(c), cs, ce))
                    s, e = span(a)
                    keys.add((a.production.symbol.name, s, e,
                              pidx(a.production), tuple(kids)))
                else:
                    leaves.add((a.symbol.name, a.start_position,
                                a.end_position, a.value))
        return keys, leaves


def _sym(n):
    if isinstance(n, Parent):
        a = n.possibilities[0]
        return a.production.symbol.name if a.is_nonterm() else a.symbol.name
    return n.production.symbol.name if n.is_nonterm() else n.symbol.name


def tree_canon(node, pidx=lambda p: p.prod_id - 1):
    """canonical form of a Tree/LazyTree/NodeNonTerm/NodeTerm as the user
    sees it (iteration over children, is_term, symbol, positions)"""
    if node.is_term():
        return (node.symbol.name, node.start_position, node.end_position)
    return (pidx(node.production), tuple(tree_canon(c, pidx) for c in node))


def tree_nodes(node):
    """all nodes of a user-visible tree in pre-order with their parent"""
    out = []
    stack = [(node, None)]
    while stack:
        n, par = stack.pop()
        out.append((n, par))
        if not n.is_term():
            for c in reversed(list(n)):
                stack.append((c, n))
    return out


# ---------------------------------------------------------------------------
# table-construction state budget (divergence is decided by a count, not a
# clock).  Installed once per process, after the grammar-of-grammars parser
# has been built.

STATE_BUDGET = [400]


def install_state_budget(n=400):
    import parglare.tables as T
    STATE_BUDGET[0] = n
    if getattr(T.LRState.__init__, "_pgmc", False):
        return
    grammar_from_string('S: "a";')      # builds parglare's own grammar parser
    orig = T.LRState.__init__

    def __init__(self, grammar, state_id, symbol, items=None):
        if state_id > STATE_BUDGET[0]:
            raise BudgetExceeded(f"more than {STATE_BUDGET[0]} LR states")
        orig(self, grammar, state_id, symbol, items)
    __init__._pgmc = True
    T.LRState.__init__ = __init__
